"""C12 — symbolic execution is sound with respect to concrete execution.

Cases (Hypothesis):
  parallel   one AssignBlock built from a hazard template of vlib.irgen (swap, rotation, read-after-write,
             disjoint slices of one register, store whose pointer register is reassigned, load of the cell
             stored in the same block, two stores); judged through eval_assignblk (read-only) and
             eval_updt_assignblk.
  block      one IR block (1..4 AssignBlocks + destination) through eval_updt_irblock.
  chain      1..3 blocks linked by unconditional jumps through run_at.
  loop       counter := k (1..4); body; counter -= 1; IRDst := counter ? body : exit  through run_at
             (control flow the engine resolves because the counter is constant).
  memcopy    1..2 blocks of memory traffic over small windows of 2..3 symbolic bases (irgen.memcopy_program):
             memory-to-memory copies done in 1..4 pieces of 1/2/4/8 bytes (any order, sequential or in one
             AssignBlock), copies through a register, constant / register stores partially overwriting earlier
             pieces, loads at arbitrary byte offsets spanning several stored pieces; through eval_updt_irblock /
             run_at.  (What the symbolic memory returns for a cell assembled from several stored values.)
  (random strata: half of the cases start from a given symbolic state -- constructor argument -- binding up to
   3 registers / one memory cell to expressions; register vocabulary x86_32 / aarch64l / msp430 by shard)
  lifted     one random decodable / curated instruction of x86_16/32/64, ARM, Thumb, AArch64, MIPS32,
             PPC32, MSP430, MeP placed at an address, lifted with add_instr_to_ircfg, driven block by block
             with run_block_at until the destination is unresolved or leaves the instruction.

Oracle: vlib.irinterp on a concrete initial state (registers used as pointers 2^20 apart, everything else
a keyed hash; memory = total hash memory).  The engine starts from the empty (fully symbolic) state; every
final register expression, every stored memory cell and the destination are evaluated with S under the
initial state and compared with the interpreter's final registers, memory bytes and destination; the
sequence of blocks the engine followed must be the sequence the interpreter follows.

Non-aliasing (documented assumption of the engine: cells with different symbolic bases are distinct) is
re-checked per case from the memory accesses the engine performed (mem_read / mem_write hooks, the
documented override points): a concrete byte touched through two different symbolic bases, one access
being a write, drops the case.
"""
import collections

from vlib.runner import Check, ShardResult, Failure, derive_seed
from vlib import hyp, simplab
from vlib.refeval import S, Env, mask, Undefined, Uninterpreted
from vlib.timeout import TimeLimit

LIMIT_S = 10
RANDOM_ARCH = "x86_32"
RANDOM_ARCHS = ["x86_32", "aarch64l", "x86_32", "msp430"]     # register vocabulary of the random IR, by shard
LIFT_ARCHS = ["x86_32", "x86_64", "x86_16", "arml", "armtl", "aarch64l", "mips32b", "ppc32b", "msp430", "mepb"]
MAX_LIFT_BLOCKS = 12

ATTRIB_MAX = 40
_state = {}
_attrib_count = collections.Counter()


def call_with_limit(seconds, fn, *args, **kwargs):
    """vlib.timeout.call_with_limit with a repeating timer: an exception raised by the signal handler inside a
    garbage-collector / weakref callback is swallowed by the interpreter, so the alarm fires again every second
    until it lands in ordinary code."""
    import signal

    def handler(signum, frame):
        raise TimeLimit()
    old = signal.signal(signal.SIGALRM, handler)
    signal.setitimer(signal.ITIMER_REAL, seconds, 1.0)
    try:
        return fn(*args, **kwargs)
    finally:
        signal.setitimer(signal.ITIMER_REAL, 0)
        signal.signal(signal.SIGALRM, old)


class Drop(Exception):
    def __init__(self, reason):
        Exception.__init__(self, reason)
        self.reason = reason


def machine(name):
    key = ("machine", name)
    if key not in _state:
        import warnings
        import logging
        warnings.filterwarnings("ignore")
        from miasm.analysis.machine import Machine
        _state[key] = Machine(name)
        for lname, lg in list(logging.Logger.manager.loggerDict.items()):
            if isinstance(lg, logging.Logger) and lg.handlers:
                lg.setLevel(logging.CRITICAL)
    return _state[key]


def pool(name=RANDOM_ARCH):
    key = ("pool", name)
    if key not in _state:
        from miasm.core.locationdb import LocationDB
        from vlib import irgen
        _state[key] = irgen.RegPool(machine(name).lifter(LocationDB()))
    return _state[key]


def engine_class():
    if "engine" not in _state:
        from miasm.ir.symbexec import SymbolicExecutionEngine

        class LoggingEngine(SymbolicExecutionEngine):
            """pass-through hooks on the documented override points: log memory accesses and blocks"""

            def __init__(self, *args, **kwargs):
                self.accesses = []
                self.blocks_run = []
                SymbolicExecutionEngine.__init__(self, *args, **kwargs)

            def mem_read(self, expr):
                self.accesses.append(("r", expr))
                return SymbolicExecutionEngine.mem_read(self, expr)

            def mem_write(self, dst, src):
                self.accesses.append(("w", dst))
                return SymbolicExecutionEngine.mem_write(self, dst, src)

            def eval_updt_irblock(self, irb, step=False):
                self.blocks_run.append(irb.loc_key)
                return SymbolicExecutionEngine.eval_updt_irblock(self, irb, step=step)
        _state["engine"] = LoggingEngine
    return _state["engine"]


def recorder():
    """instrument the engine's default simplifier once (per-rule attribution of value changes)"""
    if "rec" not in _state:
        from miasm.expression.simplifications import expr_simp_explicit
        rec = simplab.Recorder()
        rec.enabled = False
        simplab.instrument(expr_simp_explicit, rec)
        _state["rec"] = rec
        _state["simp"] = expr_simp_explicit
    return _state["rec"], _state["simp"]


def _where(ex):
    import traceback
    for fr in reversed(traceback.extract_tb(ex.__traceback__)):
        if "/miasm/" in fr.filename:
            return "%s:%s" % (fr.filename.split("/miasm/")[-1], fr.name)
    return "?"


# ----------------------------------------------------------------------------------------------
# concrete states

def ptr_values(regs, addrsize, perm, lows):
    """values >= 2^20 apart (2^11 for 16-bit address spaces, 2^36 for 64-bit ones) for the registers of the
    address size: register i gets slot (i + perm) mod n, value (slot + 1) << shift plus a small offset"""
    shift = {16: 11, 32: 20, 64: 36}.get(addrsize, 20)
    n = len(regs)
    vals = {}
    for i, r in enumerate(regs):
        slot = (i + perm) % n
        vals[r] = (((slot + 1) << shift) + lows[i % len(lows)]) & mask(addrsize)
    return vals


def state_strategy():
    from hypothesis import strategies as st
    return st.fixed_dictionaries({
        "key": st.integers(0, 1 << 30),
        "perm": st.integers(0, 63),
        "lows": st.lists(st.sampled_from([0, 0, 4, 0x100, 0x7fc, 0x10, 0xff]), min_size=1, max_size=4),
        # a few registers forced to boundary values: (index into the register list, style)
        "special": st.lists(st.tuples(st.integers(0, 400), st.integers(0, 4)), max_size=4).map(
            lambda l: [list(x) for x in l]),
    })


def make_state(spec, all_regs, addrsize):
    """-> irinterp.State.  all_regs: list of ExprId (the architecture's registers)"""
    from vlib.irinterp import State
    regs = {}
    pregs = [r for r in all_regs if r.size == addrsize]
    for r, v in ptr_values(pregs, addrsize, spec["perm"], spec["lows"]).items():
        regs[(r.name, r.size)] = v
    others = [r for r in all_regs if r.size != addrsize]
    for idx, style in spec["special"]:
        if not others:
            break
        r = others[idx % len(others)]
        regs[(r.name, r.size)] = [0, 1, mask(r.size), 1 << (r.size - 1), mask(r.size) >> 1][style]
    return State(regs=regs, key=spec["key"])


# ----------------------------------------------------------------------------------------------
# judging one case

def split_base(ptr):
    """own base/offset split of a pointer in the engine's canonical form"""
    if ptr.is_int():
        return "int", int(ptr)
    if ptr.is_op('+') and ptr.args[-1].is_int():
        rest = ptr.args[:-1]
        return repr(rest[0] if len(rest) == 1 else rest), int(ptr.args[-1])
    return repr(ptr), 0


def alias_conflict(accesses, env0):
    """-> description of a concrete byte touched through two symbolic bases (one access a write) | None"""
    owner = {}      # (pw, addr) -> {base: wrote?}
    for kind, memx in accesses:
        base, _ = split_base(memx.ptr)
        try:
            addr = S(memx.ptr, simplab.clone_env(env0))
        except (Undefined, Uninterpreted):
            return "pointer not evaluable"
        pw = memx.ptr.size
        for i in range((memx.size + 7) // 8):
            d = owner.setdefault((pw, (addr + i) & mask(pw)), {})
            d[base] = d.get(base, False) or kind == "w"
    for (pw, a), d in owner.items():
        if len(d) > 1 and any(d.values()):
            return "byte 0x%x reached through %s" % (a, " and ".join(sorted(d)[:2]))
    return None


_NODES = ("ExprInt", "ExprId", "ExprLoc", "ExprMem", "ExprSlice", "ExprCond", "ExprOp", "ExprCompose")


def wellformed(pairs_iter):
    """every node of every source / destination is one of the eight expression classes the engine documents
    (e.g. the MeP lifter emits IRDst = ExprAssign(PC, R11) for JMP Rm: not an IR this property speaks about)"""
    for d, s in pairs_iter:
        for e in (d, s):
            for x in simplab.subexprs(e):
                if x.__class__.__name__ not in _NODES:
                    return False
    return True


def has_unaligned_mem(pairs_iter):
    for d, s in pairs_iter:
        for e in (d, s):
            for x in simplab.subexprs(e):
                if x.__class__.__name__ == "ExprMem" and x.size % 8:
                    return True
    return False


class RawCFG(object):
    """what irinterp.run_ircfg needs: .blocks {LocKey: [AssignBlock-like]}, .loc_db, .IRDst"""

    def __init__(self, loc_db, blocks, irdst):
        self.loc_db = loc_db
        self.blocks = blocks
        self.IRDst = irdst


def compare(engine, dst_sym, st0, st1, run_dst, regs, tag):
    """-> list of (kind, detail).  st0: initial State, st1: interpreter's final State."""
    env0 = st0.env()
    out = []

    def ev(e):
        return S(e, simplab.clone_env(env0))
    names = {(r.name, r.size): r for r in regs}
    for (name, size) in list(st1.regs):
        if isinstance(name, str) and (name, size) not in names:
            from miasm.expression.expression import ExprId
            names[(name, size)] = ExprId(name, size)
    for d in engine.symbols.symbols_id:
        names.setdefault((d.name, d.size), d)
    for (name, size), r in sorted(names.items()):
        if name == "IRDst":
            continue
        sym = engine.symbols.read(r)
        if sym.size != size:
            out.append(("reg-width", "%s holds %s of width %d" % (r, sym, sym.size)))
            continue
        got = ev(sym)
        exp = st1.reg(name, size)
        if got != exp:
            out.append(("reg", "%s: symbolic %s evaluates to 0x%x, concrete execution gives 0x%x" % (r, sym, got, exp)))
            break
    covered = set()
    mem_bad = None
    for memx, val in engine.symbols.memory():
        addr = ev(memx.ptr)
        pw = memx.ptr.size
        v = ev(val)
        n = memx.size // 8
        if val.size != memx.size:
            out.append(("mem-width", "cell %s holds %s" % (memx, val)))
            continue
        exp = st1.read_mem(pw, addr, n)
        for i in range(n):
            covered.add((pw, (addr + i) & mask(pw)))
        if v != exp and mem_bad is None:
            mem_bad = ("mem-cell", "cell %s (address 0x%x) = %s evaluates to 0x%x, concrete memory holds 0x%x"
                       % (memx, addr, val, v, exp))
    if mem_bad:
        out.append(mem_bad)
    for (pw, addr, n, value, step) in st1.writes:
        for i in range(n):
            k = (pw, (addr + i) & mask(pw))
            if k in covered:
                continue
            cur = st1.mem[k]
            if cur != Env(key=st0.key).read_byte(pw, k[1]):
                out.append(("mem-missing", "byte 0x%x written by the concrete execution (now 0x%x) is in no symbolic "
                            "cell; cells: %s" % (k[1], cur, [str(m_) for m_, _ in engine.symbols.memory()][:8])))
                break
        else:
            continue
        break
    if dst_sym is not None and run_dst is not None:
        got = ev(dst_sym)
        if got != run_dst:
            out.append(("dst", "destination %s evaluates to 0x%x, concrete execution goes to 0x%x" % (dst_sym, got, run_dst)))
    return out


def run_case(case, attribute=True):
    """-> (fails [(bucket, detail)], info dict).  Raises Drop."""
    from vlib import irgen, irinterp
    kind = case["kind"]
    info = {"kind": kind}
    if kind == "lifted":
        return run_lifted(case, info, attribute)
    graph = irgen.deser_graph(case["graph"]) if is_serialised(case["graph"]) else case["graph"]
    arch = case.get("arch", RANDOM_ARCH)
    mach = machine(arch)
    lifter, ircfg, keys = irgen.build_ircfg(lambda db: mach.lifter(db), graph)
    raw = RawCFG(lifter.loc_db, {keys[b["loc"]]: b["assignblks"] for b in graph["blocks"]}, lifter.IRDst)
    npairs = [len(ab) for b in graph["blocks"] for ab in b["assignblks"]]
    info["assignblks"] = len(npairs)
    st0 = make_state(case["state"], pool(arch).all_regs(), lifter.addrsize)
    head = keys[graph["head"]]
    mode = case["mode"]
    init = [(irgen.deser_expr(d), irgen.deser_expr(s)) if isinstance(d, str) else (d, s)
            for d, s in case.get("init", [])]
    info["init"] = len(init)

    def symbolic(simp=None):
        kw = {} if simp is None else {"sb_expr_simp": simp}
        if init:
            # documented constructor argument: the state the execution starts from
            eng = engine_class()(lifter, dict(init), **kw)
            eng.accesses += [("w", d) for d, _ in init if d.is_mem()]
        else:
            eng = engine_class()(lifter, **kw)
        extra = []
        if mode == "assignblk":
            ab = ircfg.blocks[head][0]
            # read-only evaluation first: must not change the state, result applied below must agree
            pre = eng.eval_assignblk(ab)
            if not init and list(eng.symbols.items()):
                extra.append(("eval_assignblk-mutates", "state after eval_assignblk: %s" % eng.symbols.items()))
            eng.eval_updt_assignblk(ab)
            eng.blocks_run.append(head)
            dst = eng.eval_expr(lifter.IRDst)
            for d, s in pre.items():
                if d.is_id() and eng.symbols.read(d) != s:
                    extra.append(("eval_assignblk-differs", "%s: eval_assignblk gives %s, state holds %s"
                                  % (d, s, eng.symbols.read(d))))
        elif mode == "irblock":
            dst = eng.eval_updt_irblock(ircfg.blocks[head])
        else:
            dst = eng.run_at(ircfg, head)
        return eng, dst, extra
    return judge(case, info, symbolic, raw, head, st0, pool(arch).all_regs(), "%s:%s" % (kind, mode), attribute,
                 lifter.addrsize, init)


def judge(case, info, symbolic, cfg, head, st0, regs, tag, attribute, addrsize, init=()):
    from vlib import irinterp
    pairs = [p for blk in cfg.blocks.values() for ab in blk for p in irinterp._pairs(ab)]
    if not wellformed(pairs):
        raise Drop("malformed IR: node that is not an expression operand (C14's matter)")
    if has_unaligned_mem(pairs):
        raise Drop("memory access not byte aligned (engine limit)")
    for d, _ in pairs:
        t = d.arg if d.__class__.__name__ == "ExprSlice" else d
        if t.__class__.__name__ == "ExprMem" and t.ptr.size != addrsize:
            raise Drop("store through a pointer narrower/wider than the address size")
    info["mem_writes"] = sum(1 for d, _ in pairs if (d.arg if d.__class__.__name__ == "ExprSlice" else d)
                             .__class__.__name__ == "ExprMem")
    rec, simp = recorder()
    irinterp.bind_locs(st0, cfg.loc_db, irinterp.loc_keys_of(cfg), cfg.IRDst.size)

    def evaluate(engine_simp=None):
        """-> [(kind, detail)]; raises Drop"""
        try:
            eng, dst_sym, extra = call_with_limit(LIMIT_S, symbolic, engine_simp)
        except TimeLimit:
            simp.cache.clear()
            raise Drop("time-limit")
        except MemoryError:
            simp.cache.clear()
            raise Drop("memory-limit")
        except Exception as ex:
            return [("exception:%s@%s" % (type(ex).__name__, _where(ex)), "engine raised %r" % ex)]
        nb = len(eng.blocks_run)
        info["blocks_run"] = nb
        if alias_conflict(eng.accesses, st0.env()):
            raise Drop("aliasing symbolic bases")
        st1 = st0.copy()
        try:
            if init:
                # the given symbolic state, read under the initial valuation, is where the concrete run starts
                irinterp.run_assignblk(init, st1)
            run = irinterp.run_ircfg(cfg, head, st1, max_steps=2000, max_blocks=nb)
        except Undefined:
            raise Drop("division by zero in the concrete execution")
        except irinterp.DomainError:
            raise Drop("IR outside the interpreter's domain")
        fails = list(extra)
        if run.path != eng.blocks_run:
            fails.append(("path", "engine followed %s, concrete execution %s" % (eng.blocks_run, run.path)))
        else:
            try:
                fails += compare(eng, dst_sym, st0, st1, run.dst, regs, tag)
            except Undefined:
                raise Drop("division by zero in a symbolic result")
        info["cond_dst"] = dst_sym is not None and dst_sym.is_cond()
        return fails
    fails = evaluate()
    if not fails:
        return [], info
    prefix = tag
    # attribution costs two more engine runs: at most ATTRIB_MAX per process and 3 per (stratum, what differs)
    akey = (tag.split(":")[0], tuple(sorted(k for k, _ in fails)))
    _attrib_count[akey] += 1
    _attrib_count["total"] += 1
    if attribute and (attribute == "always" or (_attrib_count[akey] <= 3 and _attrib_count["total"] <= ATTRIB_MAX)):
        rule = attribute_simplifier(symbolic, st0)
        if rule:
            prefix = "via-simplifier:" + rule
        else:
            # fallback asked by the main session: the discrepancy disappears when the engine is given a
            # pass-free simplifier (only conclusive when that run is clean; the engine's memory relies on
            # constant folding, so a crash or another discrepancy there proves nothing)
            keep = dict(info)
            try:
                from miasm.expression.simplifications import ExpressionSimplifier
                if evaluate(ExpressionSimplifier()) == []:
                    prefix = "via-simplifier:unattributed:" + tag
            except Drop:
                pass
            except Exception:
                pass
            info.clear()
            info.update(keep)
    return [("%s:%s" % (prefix, k), d) for k, d in fails], info


def attribute_simplifier(symbolic, st0):
    """re-run with a cold simplifier cache, recording every rewrite; a rewrite whose two sides differ under
    the initial state is the root cause.  Fallback: the failure disappears with a pass-free simplifier."""
    rec, simp = recorder()
    simp.cache.clear()
    rec.reset()
    rec.enabled = True
    try:
        call_with_limit(LIMIT_S, symbolic)
    except BaseException:
        pass
    rec.enabled = False
    steps = list(rec.steps)
    rec.reset()
    try:
        r = simplab.attribute(steps, st0.env())
    except Exception:
        r = None
    if r:
        return "rule:" + r
    return None


def run_lifted(case, info, attribute):
    from vlib import archlab, irinterp
    from miasm.core.locationdb import LocationDB
    arch = archlab.ARCHS[case["arch"]]
    data = bytes.fromhex(case["bytes"])
    status, instr = archlab.decode(arch, data)
    if status != "ok":
        raise Drop("undecodable")
    mach = machine(arch.name)
    loc_db = LocationDB()
    # the address must fit the program counter (16-bit for msp430 / x86_16)
    instr.offset = case["addr"] & mask(mach.lifter(LocationDB()).IRDst.size)
    info["mnemonic"] = instr.name
    import contextlib
    import io
    try:
        with contextlib.redirect_stdout(io.StringIO()):      # some semantics print warnings
            if instr.dstflow():
                instr.dstflow2label(loc_db)
            lifter = mach.lifter(loc_db)
            ircfg = lifter.new_ircfg()
            head = lifter.add_instr_to_ircfg(instr, ircfg)
    except Exception:
        raise Drop("not lifted (C14's matter)")
    if not ircfg.blocks:
        raise Drop("empty IR")
    if not hasattr(head, "key"):
        head = ircfg.get_loc_key(instr.offset)
    all_regs = list(lifter.arch.regs.all_regs_ids)
    st0 = make_state(case["state"], all_regs, lifter.addrsize)
    info["assignblks"] = sum(len(b) for b in ircfg.blocks.values())

    def symbolic(simp=None):
        kw = {} if simp is None else {"sb_expr_simp": simp}
        eng = engine_class()(lifter, **kw)
        addr = head
        dst = None
        for _ in range(MAX_LIFT_BLOCKS):
            if ircfg.get_block(addr) is None:
                break
            addr = eng.run_block_at(ircfg, addr)
            dst = addr
        return eng, dst, []
    used = set()
    for blk in ircfg.blocks.values():
        for ab in blk:
            for d, s in ab.items():
                for e in (d, s):
                    for x in simplab.subexprs(e):
                        if x.is_id():
                            used.add(x)
    tag = "lifted:%s:%s" % (arch.name, archlab.mnemonic_key(instr.name))
    return judge(case, info, symbolic, ircfg, head, st0, sorted(used, key=lambda r: r.name), tag, attribute,
                 lifter.addrsize)


# ----------------------------------------------------------------------------------------------
# generation

def random_case_strategy(kind, arch=RANDOM_ARCH):
    from hypothesis import strategies as st
    from vlib import irgen
    p = pool(arch)
    sz = p.irdst.size

    @st.composite
    def init_state(draw):
        """0..3 bindings register / @w[reg + const] -> expression over the initial symbols (half of the cases: none)"""
        import miasm.expression.expression as m
        if draw(st.booleans()):
            return []
        out = []
        used = set()
        n = p.addrsize
        for _ in range(draw(st.integers(1, 3))):
            if draw(st.integers(0, 3)) == 0 and not any(d.is_mem() for d, _ in out):
                base = draw(st.sampled_from(p.ptr_regs))
                c = draw(st.sampled_from(irgen.CONSTS)) & ((1 << n) - 1)
                dst = m.ExprMem(m.ExprOp('+', base, m.ExprInt(c, n)) if c else base, draw(st.sampled_from([8, 16, 32, 64])))
            else:
                dst = draw(st.sampled_from(p.all_regs()))
                if dst.name in used:
                    continue
                used.add(dst.name)
            out.append((dst, draw(irgen.simple_src(p, dst.size))))
        return out

    def with_init(draw, case):
        ini = draw(init_state())
        if ini:
            case["init"] = ini
        return case

    @st.composite
    def par(draw):
        hz, pairs = draw(irgen.assignblk(p, depth=draw(st.integers(1, 2))))
        g = {"blocks": [{"loc": 0, "assignblks": [pairs + [(p.irdst, irgen.loc(1, sz))]]}], "head": 0, "nlocs": 2}
        return with_init(draw, {"kind": "parallel", "mode": "assignblk", "arch": arch, "hazard": hz, "graph": g, "state": draw(state_strategy())})

    @st.composite
    def block(draw):
        g = draw(irgen.chain(p, nblocks=(1, 1), depth=draw(st.integers(1, 2))))
        return with_init(draw, {"kind": "block", "mode": "irblock", "arch": arch, "graph": g, "state": draw(state_strategy())})

    @st.composite
    def chain(draw):
        g = draw(irgen.chain(p, nblocks=(2, 3), depth=draw(st.integers(1, 2))))
        return with_init(draw, {"kind": "chain", "mode": "run_at", "arch": arch, "graph": g, "state": draw(state_strategy())})

    @st.composite
    def loop(draw):
        g = draw(irgen.counted_loop(p, depth=1))
        return with_init(draw, {"kind": "loop", "mode": "run_at", "arch": arch, "graph": g, "state": draw(state_strategy())})

    @st.composite
    def memcopy(draw):
        g = draw(irgen.memcopy_program(p))
        mode = "irblock" if len(g["blocks"]) == 1 else "run_at"
        return {"kind": "memcopy", "mode": mode, "arch": arch, "graph": g, "state": draw(state_strategy())}
    return {"parallel": par, "block": block, "chain": chain, "loop": loop, "memcopy": memcopy}[kind]()


def lifted_case_strategy(arch_name):
    from hypothesis import strategies as st
    from vlib import archlab
    arch = archlab.ARCHS[arch_name]
    cur = archlab.curated(arch)
    rnd = archlab.random_strategy(arch)
    data = st.one_of(rnd, st.sampled_from(cur)) if cur else rnd
    return st.fixed_dictionaries({"kind": st.just("lifted"), "arch": st.just(arch_name),
                                  "bytes": data.map(lambda b: bytes(b).hex()),
                                  "addr": st.sampled_from([0x1000, 0x401000, 0x7ffc]),
                                  "state": state_strategy()})


def is_serialised(graph):
    for b in graph["blocks"]:
        for ab in b["assignblks"]:
            for d, _ in ab:
                return isinstance(d, str)
    return True


def case_to_json(case):
    from vlib import irgen
    if case["kind"] == "lifted":
        return case
    c = dict(case)
    if not is_serialised(case["graph"]):
        c["graph"] = irgen.ser_graph(case["graph"])
    if case.get("init"):
        c["init"] = [[d if isinstance(d, str) else irgen.ser_expr(d), s if isinstance(s, str) else irgen.ser_expr(s)]
                     for d, s in case["init"]]
    return c


def nontrivial(case, info):
    if case["kind"] == "parallel":
        return case.get("hazard") not in (None, "free")
    if info.get("mem_writes", 0) >= 1 and info.get("assignblks", 0) >= 2:
        return True
    return case["kind"] == "lifted" and info.get("cond_dst", False)


PLAN_Q = [("parallel", 60), ("block", 40), ("chain", 30), ("loop", 25), ("memcopy", 60)]     # cases per shard, quick tier


class C12(Check):
    pid = "C12"
    rule = ("Hypothesis. Random IR over the registers of the x86_32 / aarch64l / msp430 lifters (vlib.irgen), starting from "
            "the empty or a given symbolic state: 'parallel' = one AssignBlock from "
            "a hazard template (swap, 3-rotation, read-after-write, disjoint slices, store with reassigned pointer, "
            "load of the stored cell, two stores) through eval_assignblk + eval_updt_assignblk; 'block' = 1..4 "
            "AssignBlocks + destination through eval_updt_irblock; 'chain' = 2..3 blocks through run_at; 'loop' = "
            "constant-counter loop through run_at; 'memcopy' = 1..2 blocks of piecewise memory-to-memory copies (1..4 pieces "
            "of 1/2/4/8 bytes), copies through a register, partially overwriting stores and loads at arbitrary byte "
            "offsets over ~24-byte windows of 2..3 symbolic bases, then 2..4 final loads. 'lifted' = one random or curated instruction of 10 architectures "
            "lifted with add_instr_to_ircfg and driven with run_block_at. Concrete state: pointer registers >= 2^20 "
            "apart, others hashed / boundary values, total hash memory. Compared: every register, every stored cell, "
            "every concretely written byte, destination, block path. Non-trivial: >=1 memory write and >=2 "
            "AssignBlocks, or a lifted instruction with a conditional destination, or a parallel case with a hazard "
            "template; distinct by case text.")
    assumptions = ["cells with different symbolic bases do not alias (documented engine assumption): enforced by the "
                   "state generator and re-checked per case from the engine's own memory accesses; aliasing cases "
                   "are dropped and counted",
                   "memory is little-endian; accesses are byte aligned and stores use pointers of the address size "
                   "(engine limits; other IR dropped and counted)",
                   "operators without evaluation rule are pure functions of their argument values",
                   "inputs whose concrete execution divides by zero are dropped",
                   "lifting itself (instruction -> IR) is not judged here (C14/C18/C19)"]
    level_text = ("randomized differential testing of the symbolic engine against an independent concrete IR "
                  "interpreter on generated IR and on lifted instructions of ten architectures")
    technique = "property-based differential testing (Hypothesis IR generators, concrete IR interpreter oracle)"

    def nshards(self, tier):
        return 48 if tier == "thorough" else 16

    def plan(self, tier, shard, nshards):
        """-> list of (stratum, arch or None, n)"""
        mult = 10 if tier == "thorough" else 1
        jobs = [(k, RANDOM_ARCHS[shard % len(RANDOM_ARCHS)], n * mult) for k, n in PLAN_Q]
        arch = LIFT_ARCHS[shard % len(LIFT_ARCHS)]
        arch2 = LIFT_ARCHS[(shard * 3 + 1) % len(LIFT_ARCHS)]
        jobs.append(("lifted", arch, 100 * mult))
        if arch2 != arch:
            jobs.append(("lifted", arch2, 50 * mult))
        return jobs

    def run_shard(self, tier, seed, shard, nshards):
        import resource
        res = ShardResult()
        cnt = [0]
        # safety net (never reached on a sound engine): an engine that loops builds huge expressions
        soft, hard = resource.getrlimit(resource.RLIMIT_AS)
        lim = 6 << 30
        if hard == resource.RLIM_INFINITY or hard > lim:
            resource.setrlimit(resource.RLIMIT_AS, (lim, hard))

        def one(case):
            cnt[0] += 1
            try:
                fails, info = run_case(case)
            except Drop as d:
                res.dropped["%s: %s" % (case["kind"], d.reason)] += 1
                return
            res.counters["cases:%s:%s" % (case["kind"], case["arch"])] += 1
            if case["kind"] == "parallel":
                res.counters["hazard:" + case["hazard"]] += 1
            if info.get("mem_writes"):
                res.counters["with-memory-write"] += 1
            if info.get("init"):
                res.counters["with-initial-symbolic-state"] += 1
            if info.get("cond_dst"):
                res.counters["conditional-destination"] += 1
            if info.get("blocks_run", 0) > 1:
                res.counters["multi-block"] += 1
            js = None
            nt = nontrivial(case, info)
            if fails or (nt and cnt[0] % 53 == 1):
                js = case_to_json(case)
            res.case(nontrivial_key=repr(case) if nt else None, sample=js if not fails else None)
            for b, d in fails:
                res.fail(b, d, js)
            if cnt[0] % 400 == 0:
                recorder()[1].cache.clear()
        for stratum, arch, n in self.plan(tier, shard, nshards):
            strat = lifted_case_strategy(arch) if stratum == "lifted" else random_case_strategy(stratum, arch)
            hyp.survey(strat, n, derive_seed(seed, stratum, arch), one)
        return res

    def replay(self, case):
        try:
            fails, _ = run_case(case, attribute="always")
        except Drop:
            return None
        if not fails:
            return None
        want = case.get("_bucket")
        for b, d in fails:
            if b == want:
                return Failure(b, d, case)
        return Failure(fails[0][0], fails[0][1], case)

    def shrink(self, failure, tier):
        case = failure.case
        if case["kind"] == "lifted":
            return failure
        from vlib import irgen

        want = failure.bucket.rsplit(":", 1)[-1]      # what differs (reg / mem-cell / dst / path / ...)

        def kinds(c):
            # no attribution run while shrinking (3x cheaper); the final case is re-judged in full below
            try:
                return [b.rsplit(":", 1)[-1] for b, _ in run_case(c, attribute=False)[0]]
            except Drop:
                return []
            except Exception:
                return []
        best = shrink_graph_case(case, lambda c: want in kinds(c), 150 if tier == "quick" else 1000)
        try:
            fails, _ = run_case(best, attribute="always")
        except Drop:
            return failure
        for b, d in fails:
            if b == failure.bucket:
                return Failure(b, d, best)
        return failure


def shrink_graph_case(case, still_fails, budget):
    """greedy: drop assignments, AssignBlocks, then shrink source expressions"""
    from vlib import irgen
    import copy
    calls = [0]
    cur = copy.deepcopy(case_to_json(case))

    def ok(c):
        calls[0] += 1
        return calls[0] <= budget and still_fails(c)
    changed = True
    while changed and calls[0] < budget:
        changed = False
        for bi, b in enumerate(cur["graph"]["blocks"]):
            for ai in range(len(b["assignblks"])):
                ab = b["assignblks"][ai]
                for pi in range(len(ab)):
                    if "IRDst" in ab[pi][0]:
                        continue
                    cand = copy.deepcopy(cur)
                    del cand["graph"]["blocks"][bi]["assignblks"][ai][pi]
                    if not cand["graph"]["blocks"][bi]["assignblks"][ai]:
                        del cand["graph"]["blocks"][bi]["assignblks"][ai]
                    if ok(cand):
                        cur = cand
                        changed = True
                        break
                if changed:
                    break
            if changed:
                break
    # expressions
    for bi, b in enumerate(cur["graph"]["blocks"]):
        for ai, ab in enumerate(b["assignblks"]):
            for pi, (d, s) in enumerate(ab):
                if calls[0] >= budget:
                    return cur
                e = irgen.deser_expr(s)

                def pred(x, bi=bi, ai=ai, pi=pi):
                    cand = copy.deepcopy(cur)
                    cand["graph"]["blocks"][bi]["assignblks"][ai][pi][1] = irgen.ser_expr(x)
                    return ok(cand)
                small = simplab.shrink_expr(e, pred, budget=60)
                cur["graph"]["blocks"][bi]["assignblks"][ai][pi][1] = irgen.ser_expr(small)
    return cur


CHECK = C12()
