"""C46 — the sandboxed file system never escapes its base directory.

Three mappings are judged:
* linux/environment.py FileSystem.resolve_path(path, follow_link) against a real scratch sandbox
  (/var/tmp/verif-c46.<pid>/sb, with a sibling "outside" directory as escape target) holding a generated
  symbolic-link layout: the returned host path, with every symbolic link followed by the host
  (os.path.realpath), must stay under the base directory unless the guest path matches a configured
  passthrough entry.  With follow_link=False the object designated is the last component itself, so only the
  directory part is followed.
* common.py windows_to_sbpath / unix_to_sbpath (pure string functions, relative to the current directory):
  os.path.normpath of the result must stay under BASE_SB_PATH.

The oracle is os.path (realpath / normpath / abspath) only.
"""
import os
import re
import shutil

from vlib.runner import Check, ShardResult, Failure

LINK_PARENTS = ["", "d1", "d1/d2"]
LINK_NAMES = ["l0", "l1", "l2"]
LINK_TARGETS = ["f0", "d1", "d1/f1", "d2", "../f0", "..", "../..", "../../..", "../outside", "../../outside",
                "../../outside/secret", "../../../outside/secret", "/d1/f1", "/f0", "/", "/d1", "/outside",
                "{R}/outside", "{R}/outside/secret", "/etc/passwd", "/etc", "l1", "l0", "l2", "nonexistent",
                "/..", "/../outside"]
COMPONENTS = ["", ".", "..", "..", "d1", "d2", "f0", "f1", "l0", "l1", "l2", "outside", "secret", "etc", "passwd",
              "x", "..\\..", "sb"]
PASSTHROUGH_POOL = [["s", "/dev/urandom"], ["s", "{R}/outside/secret"], ["re", r"^/proc/"], ["re", r"{R}/outside/.*"],
                    ["re", r"/dev/null$"]]
EXTRA_PATHS = ["/dev/urandom", "/dev/../dev/urandom", "dev/urandom", "/dev/urandom/../../etc/passwd", "/proc/self/maps",
               "/proc/../etc/passwd", "{R}/outside/secret", "{R}/outside/dir/../secret", "{R}/outside/../outside/secret",
               "{R}/outside", "{R}/outside/../../..", "/dev/null", "/x/dev/null", "{R}/sb/f0", "{R}"]
WIN_COMPONENTS = ["", ".", "..", "..", "...", "windows", "system32", "a.txt", "C:", "c:", "..\\", "?", "etc", "passwd",
                  "file_sb", "a/b", "../..", "/", ".. ", " .."]

_sb = {}


class Sandbox(object):
    def __init__(self):
        self.root = "/var/tmp/verif-c46.%d" % os.getpid()
        shutil.rmtree(self.root, ignore_errors=True)
        os.makedirs(self.root + "/sb/d1/d2")
        os.makedirs(self.root + "/outside/dir")
        for p in ("sb/f0", "sb/d1/f1", "sb/d1/d2/f2", "outside/secret", "outside/dir/deep"):
            with open(os.path.join(self.root, p), "w") as f:
                f.write("x")
        self.base = self.root + "/sb"
        self.links = []

    def set_links(self, links):
        self.clear_links()
        seen = set()
        for parent, name, target in links:
            if (parent, name) in seen:
                continue
            seen.add((parent, name))
            p = os.path.join(self.base, parent, name)
            os.symlink(target.replace("{R}", self.root), p)
            self.links.append(p)

    def clear_links(self):
        for p in self.links:
            try:
                os.unlink(p)
            except OSError:
                pass
        self.links = []

    def remove(self):
        shutil.rmtree(self.root, ignore_errors=True)


def sandbox():
    sb = _sb.get("sb")
    if sb is None or _sb.get("pid") != os.getpid():
        sb = Sandbox()
        _sb["sb"] = sb
        _sb["pid"] = os.getpid()
    return sb


def sandbox_cleanup():
    sb = _sb.pop("sb", None)
    if sb is not None and _sb.get("pid") == os.getpid():
        sb.remove()


def inside(path, base):
    return path == base or path.startswith(base.rstrip("/") + "/")


def passthrough_match(entries, guest):
    """guest path (str) matches a configured entry: compared after normalisation, the path being taken as given or
    relative to the guest root"""
    cands = {os.path.normpath(guest), os.path.normpath(os.path.join("/", guest))}
    for kind, val in entries:
        for c in cands:
            if kind == "s":
                if c == val:
                    return True
            elif re.match(val, c):
                return True
    return False


def judge_linux(case, stats=None):
    """-> list of (bucket, detail, query index)"""
    import logging
    from miasm.os_dep.linux.environment import FileSystem
    logging.getLogger("environment").setLevel(logging.ERROR)
    sb = sandbox()
    R = sb.root
    out = []
    seen = set()
    sb.set_links(case["links"])
    old_cwd = os.getcwd()
    try:
        if case.get("base_mode") == "rel":
            os.chdir(R)
            base_arg = "sb"
        elif case.get("base_mode") == "slash":
            base_arg = sb.base + "/"
        else:
            base_arg = sb.base
        fs = FileSystem(base_arg, None)
        entries = [[k, v.replace("{R}", R)] for k, v in case.get("passthrough", [])]
        for k, v in entries:
            fs.passthrough.append(v if k == "s" else re.compile(v))
        base_abs = os.path.abspath(sb.base)
        base_real = os.path.realpath(sb.base)
        for qi, (path, follow, as_bytes) in enumerate(case["queries"]):
            guest = path.replace("{R}", R)
            arg = guest.encode() if as_bytes else guest
            if stats is not None:
                stats.counters["resolve_path:queries"] += 1
            try:
                r = fs.resolve_path(arg, follow_link=bool(follow))
            except Exception as ex:      # refusing to resolve is not an escape
                if stats is not None:
                    stats.counters["resolve_path:raised:%s" % type(ex).__name__] += 1
                continue
            host = r.decode() if isinstance(r, bytes) else r
            if passthrough_match(entries, guest):
                if stats is not None:
                    stats.counters["resolve_path:passthrough-match"] += 1
                continue
            if follow and case["links"] and os.path.isabs(host) and passthrough_match(entries, host):
                # a symbolic link of the sandbox leads to a guest path that is itself a passthrough entry
                if stats is not None:
                    stats.counters["resolve_path:passthrough-match-through-link"] += 1
                continue
            habs = os.path.abspath(host)
            if follow:
                real = os.path.realpath(habs)
            else:
                # the last component itself is designated (lstat / readlink): follow the directory part only
                norm = os.path.normpath(habs)
                real = os.path.join(os.path.realpath(os.path.dirname(norm)), os.path.basename(norm))
            if inside(real, base_real):
                if stats is not None and real != os.path.normpath(habs):
                    stats.counters["resolve_path:inside-after-following-links"] += 1
                continue
            lex_inside = inside(os.path.normpath(habs), base_abs)
            gnorm = os.path.normpath(guest)
            if not lex_inside:
                if gnorm == ".." or gnorm.startswith("../"):
                    feat = "leading-dotdot"
                elif os.path.islink(os.path.join(sb.base, os.path.normpath("/" + guest).lstrip("/"))):
                    tgt = os.readlink(os.path.join(sb.base, os.path.normpath("/" + guest).lstrip("/")))
                    feat = "final-link:" + ("absolute-target" if tgt.startswith("/") else "relative-target")
                else:
                    feat = "plain"
                bucket = "resolve_path:follow=%d:lexical:%s" % (follow, feat)
            else:
                nh = os.path.normpath(habs)
                if follow and os.path.islink(nh) and inside(os.path.join(os.path.realpath(os.path.dirname(nh)),
                                                                         os.path.basename(nh)), base_real):
                    # the returned path is itself a link (its directory is inside): a final link left unresolved
                    bucket = "resolve_path:follow=1:via-symlink:final-link-unresolved"
                else:
                    bucket = "resolve_path:follow=%d:via-symlink:dir-link" % follow
            if bucket not in seen:
                seen.add(bucket)
                out.append((bucket, "resolve_path(%r, follow_link=%r) = %r -> host %s, outside base %s ; links %s ; "
                            "passthrough %s" % (arg, bool(follow), r, real, base_real,
                                                [[p, n, t.replace("{R}", R)] for p, n, t in case["links"]], entries), qi))
    finally:
        os.chdir(old_cwd)
        sb.clear_links()
    return out


def judge_string(case, stats=None):
    from miasm.os_dep import common
    fn = getattr(common, case["fn"])
    base = common.BASE_SB_PATH
    out = []
    seen = set()
    for qi, path in enumerate(case["queries"]):
        if stats is not None:
            stats.counters[case["fn"] + ":queries"] += 1
        try:
            r = fn(path)
        except Exception as ex:
            if stats is not None:
                stats.counters["%s:raised:%s" % (case["fn"], type(ex).__name__)] += 1
            continue
        n = os.path.normpath(r)
        if os.path.isabs(n) or not inside(n, os.path.normpath(base)):
            own_sep = "\\" if case["fn"] == "windows_to_sbpath" else "/"
            bucket = "%s:lexical:%s" % (case["fn"], "dotdot" if ".." in path.split(own_sep) else "other")
            if bucket not in seen:
                seen.add(bucket)
                out.append((bucket, "%s(%r) = %r, normalised %r is outside %r" % (case["fn"], path, r, n, base), qi))
    return out


def judge_case(case, stats=None):
    if case["fn"] == "resolve_path":
        return judge_linux(case, stats)
    return judge_string(case, stats)


def nontrivial(case):
    if case["fn"] == "resolve_path":
        return bool(case["links"]) or any(".." in q[0] for q in case["queries"])
    return any(".." in q for q in case["queries"])


# ---------------------------------------------------------------------------------------------


def case_strategy():
    from hypothesis import strategies as st

    comp = st.sampled_from(COMPONENTS)

    @st.composite
    def posix_path(draw):
        if draw(st.integers(0, 9)) == 0:
            return draw(st.sampled_from(EXTRA_PATHS))
        parts = draw(st.lists(comp, min_size=1, max_size=6))
        sep = draw(st.sampled_from(["/", "/", "/", "//"]))
        p = sep.join(parts)
        lead = draw(st.sampled_from(["", "/", "/", "//", "./", "../"]))
        trail = draw(st.sampled_from(["", "", "/", "/."]))
        return lead + p + trail

    @st.composite
    def win_path(draw):
        parts = draw(st.lists(st.sampled_from(WIN_COMPONENTS), min_size=1, max_size=6))
        sep = draw(st.sampled_from(["\\", "\\", "\\", "\\\\", "/"]))
        lead = draw(st.sampled_from(["", "C:\\", "\\", "\\\\?\\", "..\\", "\\\\.\\", "/"]))
        p = lead + sep.join(parts)
        if draw(st.booleans()):
            p = p.upper()
        return p

    link = st.tuples(st.sampled_from(LINK_PARENTS), st.sampled_from(LINK_NAMES), st.sampled_from(LINK_TARGETS))

    @st.composite
    def gen(draw):
        fn = draw(st.sampled_from(["resolve_path", "resolve_path", "resolve_path", "windows_to_sbpath", "unix_to_sbpath"]))
        if fn == "resolve_path":
            links = draw(st.lists(link, max_size=4))
            queries = draw(st.lists(st.tuples(posix_path(), st.sampled_from([1, 1, 0]), st.sampled_from([0, 0, 0, 1])),
                                    min_size=1, max_size=8))
            if draw(st.integers(0, 4)) == 0:
                # long chain of links c0 -> c1 -> ... -> c(n-1) -> final target (a resolver that gives up after
                # some depth must still not hand an unresolved link to the host)
                n = draw(st.one_of(st.integers(2, 14), st.sampled_from([7, 8, 9, 10, 16, 17, 33])))
                final = draw(st.sampled_from(["/etc/passwd", "{R}/outside/secret", "../outside/secret", "/../outside",
                                              "f0", "/d1/f1", "../../outside/secret"]))
                rel = draw(st.booleans())
                links = list(links) + [("", "c%d" % i, ("c%d" if rel else "/c%d") % (i + 1)) for i in range(n - 1)]
                links.append(("", "c%d" % (n - 1), final))
                queries = list(queries) + [("/c0", 1, 0), ("c0", draw(st.sampled_from([0, 1])), 0), ("/c0/../c0", 1, 0)]
            pt = draw(st.lists(st.sampled_from(PASSTHROUGH_POOL), max_size=2))
            return {"fn": fn, "links": [list(l) for l in links], "queries": [list(q) for q in queries],
                    "passthrough": pt, "base_mode": draw(st.sampled_from(["abs", "abs", "rel", "slash"]))}
        if fn == "windows_to_sbpath":
            return {"fn": fn, "queries": draw(st.lists(win_path(), min_size=1, max_size=8))}
        return {"fn": fn, "queries": [q for q in draw(st.lists(posix_path(), min_size=1, max_size=8)) if "{R}" not in q]
                or ["/"]}
    return gen()


class C46(Check):
    pid = "C46"
    rule = ("Hypothesis cases. resolve_path: a scratch sandbox (files, two directory levels, a sibling 'outside' "
            "directory) with 0-4 generated symbolic links (relative, upward, absolute, chained, looping, dangling; one case in five adds a chain of 2-33 links ending inside or outside; "
            "targets, in three directories), base path given absolute / relative to cwd / with trailing slash, 0-2 "
            "passthrough entries (strings and regexps), and 1-8 guest paths (1-6 components among existing names, "
            "link names, '.', '..', '', backslash names; leading '', '/', '//', './', '../'; repeated and trailing "
            "separators; str and bytes; follow_link on/off); windows_to_sbpath: 1-6 components with '\\\\' or '/' "
            "separators, drive / UNC-like prefixes, case variants; unix_to_sbpath: the POSIX paths. Judged: "
            "realpath of the returned host path under realpath(base) (passthrough matches exempt), normpath for the "
            "two string functions. Non-trivial: a '..' component or a symbolic link in the layout; distinct by case.")
    assumptions = ["windows_to_sbpath / unix_to_sbpath are pure string functions: judged lexically (normpath), "
                   "host-side symbolic links inside file_sb are not considered for them",
                   "resolve_path with follow_link=False designates the last component itself: only its directory "
                   "part is followed on the host",
                   "a guest path matches a passthrough entry when its normalised form (as given, or taken from the "
                   "guest root) equals the string entry / is matched by the regexp entry; a path that reaches, through "
                   "a symbolic link of the sandbox, a guest path matching an entry is a passthrough too",
                   "an exception (AssertionError, RecursionError on link loops) is a refusal, not an escape"]
    level_text = ("randomized testing of the three guest-path mappings against os.path on a real scratch sandbox with "
                  "generated symbolic-link layouts")
    technique = "property-based testing (Hypothesis paths and link layouts, os.path.realpath oracle)"

    def nshards(self, tier):
        return 16

    def run_shard(self, tier, seed, shard, nshards):
        from vlib import hyp
        res = ShardResult()
        n = 6000 if tier == "thorough" else 500
        cnt = [0]

        def one(case):
            cnt[0] += 1
            fails = judge_case(case, res)
            nt = nontrivial(case)
            res.case(nontrivial_key=repr(case) if nt else None, sample=case if nt and cnt[0] % 120 == 1 else None)
            res.counters["fn:" + case["fn"]] += 1
            for b, d, qi in fails:
                q = case["queries"][qi]
                res.fail(b, d, dict(case, queries=[q], _bucket=b))
        try:
            hyp.survey(case_strategy(), n, seed, one)
        finally:
            sandbox_cleanup()
        return res

    def replay(self, case):
        try:
            fails = judge_case(case)
        finally:
            sandbox_cleanup()
        if not fails:
            return None
        want = case.get("_bucket")
        for b, d, _ in fails:
            if b == want:
                return Failure(b, d, case)
        b, d, _ = fails[0]
        return Failure(b, d, case)

    def shrink(self, failure, tier):
        case = failure.case
        bucket = failure.bucket

        def fails(c):
            for b, d, _ in judge_case(c):
                if b == bucket:
                    return d
            return None
        try:
            cur = dict(case)
            changed = True
            while changed:
                changed = False
                for key in ("links", "passthrough"):
                    lst = cur.get(key) or []
                    for i in range(len(lst)):
                        cand = dict(cur)
                        cand[key] = lst[:i] + lst[i + 1:]
                        if fails(cand):
                            cur = cand
                            changed = True
                            break
                    if changed:
                        break
            d = fails(cur)
            if d:
                return Failure(bucket, d, cur)
        finally:
            sandbox_cleanup()
        return failure


CHECK = C46()
