"""C16 — instruction text parses back to the same instruction.

Inputs: vlib.archlab strata (as C15).  Usage mirrors test/arch/*/arch.py: ``s = str(mn.dis(bytes, mode))``,
``l = mn.fromstring(s, loc_db, mode)``, ``str(l) == s``, ``mn.asm(l)``, ``mn.dis(candidate, mode)``.
Oracle (statement only): fromstring accepts the printed text; the parsed instruction prints identically; every
encoding of the parsed instruction decodes to the original instruction (name, mode, operands, length).
Encodings that already fail for the *decoded* instruction are C15's subject and are skipped here.
"""
from vlib.runner import Check, ShardResult, Failure
from vlib import archlab
from checks import c15

PARTS_Q = {"x86_32": 6, "x86_64": 8, "x86_16": 3, "arml": 2, "armb": 1, "armtl": 2, "armtb": 1, "aarch64l": 3,
           "aarch64b": 1, "mips32l": 1, "mips32b": 1, "ppc32b": 2, "msp430": 3, "mepb": 1, "mepl": 1, "sh4": 1}
PARTS_T = {"x86_32": 40, "x86_64": 48, "x86_16": 32, "arml": 10, "armb": 8, "armtl": 8, "armtb": 8, "aarch64l": 16,
           "aarch64b": 12, "mips32l": 4, "mips32b": 4, "ppc32b": 4, "msp430": 4, "mepb": 4, "mepl": 4, "sh4": 2}
# instances judged per instruction shape (mnemonic + operand skeleton) and shard
CAP_Q = 1
CAP_T = 4


def skeleton(e, depth=0):
    if e.is_int():
        return "i%d" % e.size
    if e.is_id():
        return "r%d" % e.size
    if e.is_loc():
        return "l%d" % e.size
    if e.is_mem():
        return "m%d[%s]" % (e.size, skeleton(e.ptr, depth + 1))
    if e.is_op():
        return "%s(%s)" % (e.op, ",".join(skeleton(a, depth + 1) for a in e.args))
    if e.is_slice():
        return "s%d:%d(%s)" % (e.start, e.stop, skeleton(e.arg, depth + 1))
    if e.is_compose():
        return "c(%s)" % ",".join(skeleton(a, depth + 1) for a in e.args)
    if e.is_cond():
        return "?(%s,%s,%s)" % (skeleton(e.cond), skeleton(e.src1), skeleton(e.src2))
    return type(e).__name__


def topkind(e):
    if e.is_int():
        return "i"
    if e.is_id():
        return "r%d" % e.size
    if e.is_mem():
        return "m%d" % e.size
    if e.is_op():
        return e.op
    return type(e).__name__


def shape_keys(arch, instr, text, tier):
    """Keys under which an instance is counted; it is judged while any of its keys is below the cap.
    thorough: (mnemonic, first printed token, full operand skeleton).
    quick: (mnemonic, first token, top-level operand kinds) and, separately, the mnemonic-independent skeleton of
    its memory / operator operands (addressing forms)."""
    first = text.split(None, 1)[0] if text.split() else ""
    if tier == "thorough":
        return [(instr.name, first, tuple(skeleton(a) for a in instr.args))]
    keys = [("n", instr.name, first, tuple(topkind(a) for a in instr.args))]
    addr = tuple(skeleton(a) for a in instr.args if a.is_mem() or a.is_op())
    if addr:
        keys.append(("a", first if first != instr.name else "", addr))
    return keys


def judge_text(arch, instr, loc_db, c15_fails=None):
    """-> (text, [(kind, detail)])"""
    from miasm.core.locationdb import LocationDB
    mn = archlab.mn_of(arch)
    try:
        text = str(instr)
    except Exception as ex:
        return None, [("print-exception:%s@%s" % (type(ex).__name__, c15._where(ex)),
                       "str() of the instruction %s %r raised %r" % (instr.name, instr.args, ex))]
    if loc_db is None:
        loc_db = LocationDB()
    try:
        i2 = mn.fromstring(text, loc_db, arch.mode)
    except ValueError as ex:
        if "cannot fromstring" in repr(ex) or "unknown name" in repr(ex):
            return text, [("unparsable", "fromstring(%r) raised %r" % (text, ex))]
        return text, [("parse-exception:ValueError@%s" % c15._where(ex), "fromstring(%r) raised %r" % (text, ex))]
    except Exception as ex:
        return text, [("parse-exception:%s@%s" % (type(ex).__name__, c15._where(ex)),
                       "fromstring(%r) raised %r" % (text, ex))]
    try:
        text2 = str(i2)
    except Exception as ex:
        return text, [("reprint-exception:%s@%s" % (type(ex).__name__, c15._where(ex)),
                       "str(fromstring(%r)) raised %r" % (text, ex))]
    if text2.strip(" ") != text.strip(" "):
        # a different instruction was parsed: its encodings are not examined
        return text, [("prints-differently", "fromstring(%r) prints as %r" % (text, text2))]
    fails = []
    # encodings of the parsed instruction
    if c15_fails is None:
        _c, c15_fails = c15.roundtrip(arch, instr)
    bad = set(c for _k, _d, c in c15_fails if c is not None)
    orig_noasm = any(c is None for _k, _d, c in c15_fails)
    cands, f2 = c15.roundtrip_against(arch, i2, instr, loc_db)
    for kind, detail, c in f2:
        if c is None:
            if orig_noasm:
                continue        # the decoded instruction does not assemble either: C15
            fails.append(("reparsed:" + kind, "text %r: %s" % (text, detail)))
        elif c not in bad:
            fails.append(("reparsed:" + kind, "text %r: %s" % (text, detail)))
    return text, fails


def set_packrat(on):
    """pyparsing memoisation (3x faster parsing).  Every failure seen with it is re-judged without it."""
    import pyparsing
    if on:
        pyparsing.ParserElement.enable_packrat()
    else:
        pyparsing.ParserElement.disable_memoization()


def judge(arch, data, loc_db=None):
    st, instr = archlab.decode(arch, data)
    if st != "ok":
        return st, instr, None, []
    text, fails = judge_text(arch, instr, loc_db)
    out = []
    seen = set()
    for kind, detail in fails:
        if kind in seen:
            continue
        seen.add(kind)
        out.append((archlab.bucket(arch, instr.name, kind),
                    "%s %s: %s" % (arch.name, bytes(data[:instr.l]).hex(), detail)))
    return "ok", instr, text, out


class C16(c15.RoundTripCheck):
    pid = "C16"
    parts_q = PARTS_Q
    parts_t = PARTS_T
    stride_q = {"x86_16": 4, "armb": 16, "armtb": 16, "aarch64b": 16, "mips32l": 16, "mepl": 16}
    nrand_q = 48
    nrand_t = 4000
    block = 0      # contiguous opcode ranges per shard: instruction shapes rarely repeat across shards
    rule = ("same byte strata as C15 (curated + opcode enumeration, seed-independent; small Hypothesis stratum). "
            "Parsing costs 10-70 ms, so per shard at most CAP instances (quick 1, thorough 4; random stratum "
            "uncapped) of each instruction shape are judged (thorough: shape = mnemonic, first printed token, full "
            "operand skeleton with register and immediate widths; quick: mnemonic + first token + top-level operand "
            "kinds, and independently each addressing-form skeleton): text=str(instr); fromstring(text, loc_db, mode) must succeed, print "
            "identically, and each encoding of the parsed instruction must decode to the original "
            "name/mode/operands with l == len. Encodings that already fail for the decoded instruction (C15) are "
            "skipped. Non-trivial: instruction with >=1 operand whose text parsed; distinct by (architecture, "
            "mode, text).")
    assumptions = ["text compared after stripping blanks at both ends, as the arch scripts do",
                   "a LocationDB is passed to fromstring (ppc's script passes None; both are accepted usage)",
                   "instances beyond the per-shape cap are not judged (counted as dropped)"]
    level_text = ("shape-stratified sampling of decoded instructions over an opcode-space enumeration; printed text "
                  "re-parsed, re-printed, re-assembled and re-decoded")
    technique = "round-trip (decode / print / parse / print / assemble / decode)"

    def begin(self, res, arch, tier):
        from miasm.core.locationdb import LocationDB
        self._loc_db = LocationDB()
        self._shapes = {}
        self._cap = CAP_T if tier == "thorough" else CAP_Q
        set_packrat(True)

    def one(self, res, arch, stratum, data, state):
        st, instr = archlab.decode(arch, data)
        if st == "undecodable":
            res.dropped["bytes miasm does not decode (outside the quantifier)"] += 1
            return
        if st != "ok":
            res.dropped["decoder raised %s (no instruction obtained)" % type(instr).__name__] += 1
            return
        key = bytes(data[:instr.l])
        if key in state["seen"]:
            return
        state["seen"].add(key)
        try:
            text = str(instr)
        except Exception:
            text = ""
        if stratum not in ("random", "boundary"):
            keys = shape_keys(arch, instr, text, state["tier"])
            if all(self._shapes.get(k, 0) >= self._cap for k in keys):
                res.dropped["instance beyond the per-shape cap"] += 1
                return
            for k in keys:
                self._shapes[k] = self._shapes.get(k, 0) + 1
        text, fails = judge_text(arch, instr, self._loc_db)
        if fails:
            set_packrat(False)
            try:
                text, fails2 = judge_text(arch, instr, self._loc_db)
            finally:
                set_packrat(True)
            if sorted(k for k, _d in fails2) != sorted(k for k, _d in fails):
                res.counters["verdict differs with/without parser memoisation (plain verdict kept)"] += 1
            fails = fails2
        res.counters["judged:%s:%s" % (arch.name, stratum)] += 1
        parsed = not any(k.startswith(("unparsable", "parse-exception", "print-exception")) for k, _d in fails)
        nt = (arch.name, text) if (parsed and len(instr.args) >= 1) else None
        sample = None
        if nt and not res.samples and len(self._shapes) > 20:
            sample = {"arch": arch.name, "hex": key.hex(), "text": text}
        res.case(nontrivial_key=nt, sample=sample)
        seen = set()
        for kind, detail in fails:
            if kind in seen:
                continue
            seen.add(kind)
            res.fail(archlab.bucket(arch, instr.name, kind), "%s %s: %s" % (arch.name, key.hex(), detail),
                     {"arch": arch.name, "hex": data.hex()})

    def end(self, res, arch, tier):
        set_packrat(False)
        res.counters["shapes:%s" % arch.name] += len(self._shapes)

    def replay(self, case):
        arch = archlab.ARCHS[case["arch"]]
        archlab.mn_of(arch)
        archlab.quiet_miasm_logs()
        st, instr, text, fails = judge(arch, bytes.fromhex(case["hex"]))
        if not fails:
            return None
        want = case.get("_bucket")
        for b, d in fails:
            if want is None or b == want:
                return Failure(b, d, case)
        return Failure(fails[0][0], fails[0][1], case)

    def shrink(self, failure, tier):
        arch = archlab.ARCHS[failure.case["arch"]]
        st, instr = archlab.decode(arch, bytes.fromhex(failure.case["hex"]))
        if st != "ok":
            return failure
        small = dict(failure.case, hex=bytes.fromhex(failure.case["hex"])[:instr.l].hex(), _bucket=failure.bucket)
        r = self.replay(small)
        if r is not None and r.bucket == failure.bucket:
            return r
        return failure


CHECK = C16()
