"""C41 — dynamic symbolic execution stays in step with the concrete run and yields valid new inputs.

Programs: vlib.dseprog (hand-written + random C functions `unsigned f(unsigned a, unsigned b, unsigned char buf[8])`
whose branches, loop counts, shift counts and in-place buffer updates depend on the inputs; gcc -m32 at -O0/-O1/-O2),
run on the x86_32 "python" jitter with a DSEPathConstraint attached: registers concrete, the two stack arguments
replaced by the identifiers ARG0/ARG1 and/or the buffer symbolised with symbolize_memory.
Judged for every (program, initial input, strategy):
  * no DriftException and no other exception escapes the run (explicit refusals of DSE are dropped, not failed);
  * at the end the symbolic EAX and the symbolic bytes of buf, evaluated under the concrete input, equal the
    concrete EAX / buffer (the symbolic state describes the run that took place);
  * every model in new_solutions, written into a fresh jitter without DSE (unconstrained inputs keep their initial
    value), makes the concrete single-stepped trace reach what the solution was produced for: the destination address
    (code coverage), the edge (previous instruction, destination) (branch coverage), the recorded path followed by the
    destination (path coverage).  Destinations that are IR-internal labels are not observable and are dropped.
The new inputs are fed back (snapshot / restore loop of example/symbol_exec/dse_strategies.py) for a few rounds.
"""
import random
import shutil
import tempfile
import traceback

from vlib.runner import Check, ShardResult, Failure, derive_seed
from vlib import dseprog

RUN = 0x40000
BUF = 0x50000
RET = 0x1337beef
STEP_LIMIT = 4000
STRATS = {"code": 1, "branch": 2, "path": 3}
OPTS = ("-O0", "-O1", "-O2")


class StepLimit(Exception):
    pass


def where(ex):
    tb = traceback.extract_tb(ex.__traceback__)
    for fr in reversed(tb):
        if "/miasm/" in fr.filename:
            return "%s:%s" % (fr.filename.split("/miasm/")[-1], fr.name)
    return "?"


def mkjit(code, inp):
    from miasm.analysis.machine import Machine
    from miasm.jitter.csts import PAGE_READ, PAGE_WRITE
    from miasm.core.locationdb import LocationDB
    loc_db = LocationDB()
    machine = Machine("x86_32")
    jitter = machine.jitter(loc_db, "python")
    jitter.vm.add_memory_page(RUN, PAGE_READ | PAGE_WRITE, code, "code")
    jitter.vm.add_memory_page(BUF, PAGE_READ | PAGE_WRITE, bytes(inp["buf"]), "buf")
    jitter.vm.add_memory_page(RET & ~0xfff, PAGE_READ | PAGE_WRITE, b"\x90" * 0x1000, "ret")
    jitter.init_stack()
    jitter.push_uint32_t(BUF)
    jitter.push_uint32_t(inp["b"])
    jitter.push_uint32_t(inp["a"])

    def stop(j):
        j.running = False
        return False
    jitter.add_breakpoint(RET, stop)
    jitter.push_uint32_t(RET)
    jitter.init_run(RUN)
    return machine, loc_db, jitter


def concrete_run(code, inp):
    """-> (trace of instruction addresses, EAX, final buf) on a fresh jitter without DSE"""
    machine, loc_db, jitter = mkjit(code, inp)
    trace = []
    jitter.jit.set_options(max_exec_per_call=1, jit_maxline=1)

    def cb(j):
        trace.append(j.pc)
        if len(trace) > STEP_LIMIT:
            raise StepLimit()
        return True
    jitter.exec_cb = cb
    jitter.continue_run()
    return trace, jitter.cpu.EAX, jitter.vm.get_mem(BUF, dseprog.BUF_LEN)


def count_jcc(code, inp):
    """conditional jumps executed by the plain concrete run"""
    machine, loc_db, jitter = mkjit(code, inp)
    from miasm.core.bin_stream import bin_stream_vm
    mdis = machine.dis_engine(bin_stream_vm(jitter.vm), loc_db=loc_db)
    trace, _, _ = concrete_run(code, inp)
    n = 0
    names = {}
    for pc in trace:
        if pc == RET:
            continue
        if pc not in names:
            names[pc] = mdis.dis_instr(pc).name
        if names[pc].startswith("J") and names[pc] != "JMP":
            n += 1
    return n


def set_input(jitter, sp, inp):
    jitter.vm.set_mem(BUF, bytes(inp["buf"]))
    jitter.vm.set_u32(sp + 4, inp["a"])
    jitter.vm.set_u32(sp + 8, inp["b"])


def loc_offset(loc_db, e):
    """address of an ExprLoc / ExprInt destination, None for an IR-internal label"""
    if e is None:
        return None
    if e.is_int():
        return int(e)
    if e.is_loc():
        return loc_db.get_location_offset(e.loc_key)
    return None


def mnemonic(dse, addr):
    try:
        blk = dse.mdis.dis_block(addr)
        return blk.lines[0].name
    except Exception:
        return "?"


def eval_under(expr, env):
    """concrete value of a symbolic expression under the input valuation, by the framework's reference evaluator
    (vlib.refeval, independent of miasm's simplifier); None when it still reads memory or an unknown identifier"""
    from vlib import refeval
    from miasm.expression.expression import ExprId, ExprMem, ExprLoc
    ids = {}
    for e, v in env.items():
        ids[(e.name, e.size)] = int(v)
    bad = []

    def visit(e):
        if isinstance(e, (ExprMem, ExprLoc)):
            bad.append(e)
        elif isinstance(e, ExprId) and (e.name, e.size) not in ids:
            bad.append(e)
        return e
    expr.visit(visit)
    if bad:
        return None
    try:
        return refeval.S(expr, refeval.Env(ids=ids))
    except (refeval.Undefined, refeval.Uninterpreted):
        return None


def run_case(code, inp, strategy, symmode, rounds=2, max_inputs=6, stats=None):
    """-> (failures [(bucket, detail)], info dict).  One DSE engine, snapshot/restore loop over the inputs produced."""
    import z3
    from miasm.analysis.dse import DSEPathConstraint, DriftException
    from miasm.expression.expression import ExprMem, ExprId, ExprInt
    from miasm.core.interval import interval

    fails = []
    info = {"solutions": 0, "checked": 0, "sym_branches": 0, "runs": 0}

    def bump(k, n=1):
        if stats is not None:
            stats[k] += n

    def tag():
        return ":symbolized-byte-read-after-write" if raw["flag"] else ""

    class DSE(DSEPathConstraint):
        def handle_solution(self, model, destination):
            key = self._key_for_solution_strategy(destination)
            super(DSE, self).handle_solution(model, destination)
            has_off = loc_offset(self.loc_db, destination) is not None
            self.sol_info[key] = (destination, self.prev_pc if has_off else self.cur_pc)

    machine, loc_db, jitter = mkjit(code, inp)
    dse = DSE(machine, loc_db, produce_solution=STRATS[strategy])
    dse.sol_info = {}
    dse.prev_pc = dse.cur_pc = None
    dse.attach(jitter)
    dse.cur_solver.set("timeout", 10000)
    dse.update_state_from_concrete()
    sp = jitter.cpu.ESP
    A = ExprId("ARG0", 32)
    B = ExprId("ARG1", 32)
    ids = {}
    if symmode in ("args", "both"):
        dse.update_state({ExprMem(ExprInt(sp + 4, 32), 32): A, ExprMem(ExprInt(sp + 8, 32), 32): B})
        ids[A] = "a"
        ids[B] = "b"
    if symmode in ("buf", "both"):
        dse.symbolize_memory(interval([(BUF, BUF + dseprog.BUF_LEN - 1)]))
        for i in range(dseprog.BUF_LEN):
            ids[dse.memory_to_expr(BUF + i)] = i
    # observation only: was a symbolized byte read back after the program wrote it?
    raw = {"flag": False, "checking": False}
    symb = dse.symb
    orig_mem_read = symb.mem_read
    orig_check_state = dse._check_state

    def watched_check_state():
        raw["checking"] = True      # the drift check re-reads what was just written: not a read of the program
        try:
            return orig_check_state()
        finally:
            raw["checking"] = False
    dse._check_state = watched_check_state

    def watched_mem_read(expr_mem):
        if expr_mem.ptr.is_int() and symb.dse_memory_range and not raw["checking"]:
            base = int(expr_mem.ptr)
            for addr in range(base, base + expr_mem.size // 8):
                if addr in symb.dse_memory_range and ExprMem(ExprInt(addr, 32), 8) in symb.symbols:
                    raw["flag"] = True
        return orig_mem_read(expr_mem)
    symb.mem_read = watched_mem_read
    steps = [0]
    orig_cb = jitter.exec_cb

    def cb(j):
        dse.prev_pc, dse.cur_pc = dse.cur_pc, j.pc
        steps[0] += 1
        if steps[0] > STEP_LIMIT:
            raise StepLimit()
        return orig_cb(j)
    jitter.exec_cb = cb
    snapshot = dse.take_snapshot()

    todo = [dict(inp)]
    seen = set()
    for rnd in range(rounds + 1):
        nxt = []
        for cur in todo:
            key_in = (cur["a"], cur["b"], tuple(cur["buf"]))
            if key_in in seen or len(seen) >= max_inputs:
                continue
            seen.add(key_in)
            info["runs"] += 1
            dse.restore_snapshot(snapshot, keep_known_solutions=True)
            dse.cur_solver.set("timeout", 10000)
            dse.sol_info = {}
            dse.prev_pc = dse.cur_pc = None
            steps[0] = 0
            raw["flag"] = False
            jitter.init_run(RUN)
            set_input(jitter, sp, cur)
            try:
                jitter.continue_run()
            except DriftException as ex:
                d = ex.info[0]
                kind = "reg" if d.symbol.is_id() else "mem"
                mn = mnemonic(dse, dse.prev_pc) if dse.prev_pc is not None else "?"
                fails.append(("drift:%s:%s" % (mn, kind if kind == "mem" else str(d.symbol)),
                              "after %s at 0x%x: %s (input %r)" % (mn, dse.prev_pc or 0, ex, cur), cur))
                continue
            except StepLimit:
                bump("dropped:step-limit")
                continue
            except (RuntimeError, TypeError) as ex:
                msg = str(ex)
                if "too long memory area" in msg or "Rely on a symbolic memory case" in msg:
                    bump("dropped:explicit refusal (%s)" % msg.split(",")[0][:40])
                    continue
                fails.append(("exception:%s@%s" % (type(ex).__name__, where(ex)), "%r (input %r)" % (ex, cur), cur))
                continue
            except Exception as ex:
                fails.append(("exception:%s@%s" % (type(ex).__name__, where(ex)), "%r (input %r)" % (ex, cur), cur))
                continue
            # -- the symbolic state must describe the run that took place
            env = {}
            for e, slot in ids.items():
                v = cur[slot] if isinstance(slot, str) else cur["buf"][slot]
                env[e] = ExprInt(v, e.size)
            regs = dse.lifter.arch.regs
            try:
                sym_eax = dse.eval_expr(regs.EAX)
                got = eval_under(sym_eax, env)
                if got is not None and got != jitter.cpu.EAX:
                    fails.append(("out-of-step:EAX" + tag(), "symbolic EAX = %s evaluates to 0x%x under the input, concrete "
                                  "EAX = 0x%x (input %r)" % (sym_eax, got, jitter.cpu.EAX, cur), cur))
                elif got is None:
                    bump("final EAX not evaluable")
                conc = jitter.vm.get_mem(BUF, dseprog.BUF_LEN)
                for i in range(dseprog.BUF_LEN):
                    cell = ExprMem(ExprInt(BUF + i, 32), 8)
                    if cell not in dse.symb.symbols:
                        continue        # never written: nothing claimed
                    sv = dse.symb.symbols[cell]
                    got = eval_under(sv, env)
                    if got is not None and got != conc[i]:
                        fails.append(("out-of-step:written-memory" + tag(), "symbolic buf[%d] = %s evaluates to 0x%x, memory "
                                      "holds 0x%x (input %r)" % (i, sv, got, conc[i], cur), cur))
                        break
            except Exception as ex:
                fails.append(("exception:%s@%s" % (type(ex).__name__, where(ex)), "final state: %r" % (ex,), cur))
            # -- every produced solution must drive a fresh concrete run to its destination
            for key, model in list(dse.new_solutions.items()):
                info["solutions"] += 1
                dest, from_pc = dse.sol_info.get(key, (None, None))
                new = {"a": cur["a"], "b": cur["b"], "buf": list(cur["buf"])}
                for e, slot in ids.items():
                    zv = model.eval(dse.z3_trans.from_expr(e), model_completion=False)
                    if not z3.is_bv_value(zv):
                        continue
                    if isinstance(slot, str):
                        new[slot] = zv.as_long()
                    else:
                        new["buf"][slot] = zv.as_long()
                nxt.append(new)
                dest_off = loc_offset(loc_db, dest)
                if dest_off is None:
                    bump("dropped:solution for an IR-internal label")
                    continue
                try:
                    trace, _, _ = concrete_run(code, new)
                except StepLimit:
                    bump("dropped:step-limit")
                    continue
                ok = True
                what = ""
                if strategy == "code":
                    ok = dest_off in trace
                    what = "destination 0x%x never executed" % dest_off
                elif strategy == "branch":
                    prev_off = loc_offset(loc_db, key[0])
                    if prev_off is None:
                        ok = dest_off in trace
                        what = "destination 0x%x never executed" % dest_off
                    else:
                        ok = any(trace[i] == prev_off and trace[i + 1] == dest_off for i in range(len(trace) - 1))
                        what = "edge 0x%x -> 0x%x never taken" % (prev_off, dest_off)
                else:
                    want = [loc_offset(loc_db, x) for x in key]
                    want = [x for x in want if x is not None]
                    ok = trace[:len(want)] == want
                    what = "path %s not followed" % [hex(x) for x in want[-6:]]
                info["checked"] += 1
                if not ok:
                    mn = mnemonic(dse, from_pc) if from_pc is not None else "?"
                    fails.append(("solution:%s:%s%s" % (strategy, mn, tag()),
                                  "from input %r the solution %s for %s (branch %s at 0x%x) gives input %r: %s; trace %s"
                                  % (cur, model, what.split(" ")[0] + " " + hex(dest_off), mn, from_pc or 0, new, what,
                                     [hex(x) for x in trace[-12:]]), cur))
            info["sym_branches"] = max(info["sym_branches"], len(dse.cur_solver.assertions()))
            if raw["flag"]:
                bump("runs reading back a written symbolized byte")
        todo = nxt
    return fails, info


def gen_input(rnd):
    def word():
        k = rnd.random()
        if k < 0.3:
            return rnd.choice([0, 1, 2, 5, 0x41, 0x7f, 0x80, 0xff, 0x100, 0x7fffffff, 0x80000000, 0xffffffff])
        if k < 0.6:
            return rnd.randrange(256)
        return rnd.getrandbits(32)
    k = rnd.random()
    if k < 0.2:
        buf = [0] * dseprog.BUF_LEN
    elif k < 0.4:
        buf = [rnd.choice([0, 0x41, 0x78, 0x7f, 0x80, 0xff])] * dseprog.BUF_LEN
    else:
        buf = [rnd.randrange(256) for _ in range(dseprog.BUF_LEN)]
    return {"a": word(), "b": word(), "buf": buf}


class C41(Check):
    pid = "C41"
    needs_build = True
    needs_z3 = True
    rule = ("10 hand-written and N random C functions f(unsigned a, unsigned b, unsigned char buf[8]) (if/else, early "
            "returns, loops of <=4 rounds, switch, signed/unsigned compares, variable shifts, mul/div/mod, in-place buffer "
            "updates; constant addresses only) compiled by gcc -m32 at -O0/-O1/-O2, each run on the x86_32 python jitter "
            "under DSEPathConstraint with strategy code/branch/path coverage, arguments and/or buffer symbolic, from a "
            "random initial input, feeding produced inputs back through snapshot/restore for 2 rounds (<=6 inputs). "
            "Non-trivial: a run whose path holds >=2 input-dependent branch constraints; distinct by (code, input, "
            "strategy, symbolised inputs).")
    assumptions = ["host gcc -m32 output uses only instructions the x86_32 lifter supports (others surface as exceptions)",
                   "solutions whose destination is an IR-internal label (no address) are not observable: dropped",
                   "an input the model leaves unconstrained keeps its initial value",
                   "explicit refusals of DSE ('too long memory area', 'Rely on a symbolic memory case') are out of domain",
                   "z3 answers within 10 s (otherwise no solution is produced, which is not judged)"]
    level_text = ("randomized end-to-end testing of the DSE engine on compiled programs: drift detection, agreement of the "
                  "final symbolic state with the concrete one, and replay of every produced input on a fresh emulator")
    technique = "property-based testing (random C programs, concrete re-execution oracle)"

    def nshards(self, tier):
        return 32 if tier == "thorough" else 16

    def run_shard(self, tier, seed, shard, nshards):
        res = ShardResult()
        nrand = 12 if tier == "thorough" else 3
        scratch = tempfile.mkdtemp(prefix="c41-", dir="/var/tmp")
        try:
            # the hand-written programs are spread over the shards (all of them are run in every tier)
            funcs = [dseprog.FIXED[shard % len(dseprog.FIXED)]]
            nfixed = len(funcs)
            for i in range(nrand):
                rnd = random.Random(derive_seed(seed, "prog", i))
                funcs.append(("gen%d_%d" % (seed, i), dseprog.Gen(rnd).function()))
            for oi, opt in enumerate(OPTS):
                progs = dseprog.compile_batch(funcs, opt, scratch, RUN, tag="s%d" % shard)
                for pi, p in enumerate(progs):
                    if tier == "quick" and pi >= nfixed and (oi + pi + shard) % 3 == 2:
                        continue        # quick: two of the three optimisation levels per random program
                    if p["code"] is None:
                        res.dropped["not compiled relocation-free: " + p["reason"]] += 1
                        continue
                    rnd = random.Random(derive_seed(seed, "input", pi, oi))
                    ninp = 2 if tier == "thorough" else 1
                    for k in range(ninp):
                        inp = gen_input(rnd)
                        strategy = ("code", "branch", "path")[rnd.randrange(3)]
                        symmode = ("both", "buf", "args", "both")[(pi + k + rnd.randrange(4)) % 4]
                        if pi < nfixed:
                            symmode = "both"
                        self._one(res, p, opt, inp, strategy, symmode, 6 if tier == "thorough" else 3)
        finally:
            shutil.rmtree(scratch, ignore_errors=True)
        return res

    def _one(self, res, p, opt, inp, strategy, symmode, max_inputs):
        case = {"tag": p["tag"], "src": p["src"], "opt": opt, "code": p["code"].hex(), "input": inp,
                "strategy": strategy, "sym": symmode}
        try:
            fails, info = run_case(p["code"], inp, strategy, symmode, max_inputs=max_inputs, stats=res.counters)
        except StepLimit:
            res.dropped["step-limit"] += 1
            return
        nt = info["sym_branches"] >= 2
        if not nt and fails:
            # the DSE run was cut short: fall back on the concrete run (>= 2 conditional jumps executed)
            try:
                nt = count_jcc(p["code"], inp) >= 2
            except Exception:
                nt = False
        res.case(nontrivial_key=(case["code"], repr(inp), strategy, symmode) if nt else None,
                 sample={k: case[k] for k in ("tag", "src", "opt", "input", "strategy", "sym")}
                 if nt and info["solutions"] >= 2 else None)
        res.counters["runs"] += info["runs"]
        res.counters["solutions produced"] += info["solutions"]
        res.counters["solutions replayed"] += info["checked"]
        res.counters["strategy:" + strategy] += 1
        res.counters["symbolic:" + symmode] += 1
        res.counters["opt:" + opt] += 1
        seen = set()
        for bucket, detail, cur in fails:
            if bucket in seen:
                continue
            seen.add(bucket)
            c = dict(case)
            c["input"] = cur
            c["_bucket"] = bucket
            res.fail(bucket, "%s [%s %s, %s, symbolic %s]\n%s" % (detail, p["tag"], opt, strategy, symmode,
                                                                 p["src"].replace("{f}", "f")), c)

    def replay(self, case):
        code = bytes.fromhex(case["code"])
        fails, info = run_case(code, case["input"], case["strategy"], case["sym"])
        if not fails:
            return None
        want = case.get("_bucket")
        for b, d, cur in fails:
            if want is None or b == want:
                return Failure(b, d, case)
        b, d, cur = fails[0]
        return Failure(b, d, case)


CHECK = C41()
