"""C01 — expression simplification preserves meaning and never crashes.

Generator: vlib.exprgen.any_expr (free trees + rule-directed templates), widths 1..128.
Oracle: vlib.refeval.S under exhaustive (<= 10 free bits) or 29 boundary/pseudo-random
valuations; total hash memory, little-endian.
"""
from vlib.runner import Check, ShardResult, Failure
from vlib import simplab, exprgen
from vlib.timeout import call_with_limit, TimeLimit

LIMIT_S = 10
CONFIGS = ("expr_simp", "expr_simp_high_to_explicit", "expr_simp_explicit")

_state = {}


def simplifiers():
    if "simps" not in _state:
        from miasm.expression import simplifications as sm
        rec = simplab.Recorder()
        simps = {n: getattr(sm, n) for n in CONFIGS}
        for s in simps.values():
            simplab.instrument(s, rec)
        _state["simps"] = simps
        _state["rec"] = rec
    return _state["simps"], _state["rec"]


def judge(e, stats=None, info=None):
    """-> list of (bucket, detail) (at most one per configuration)"""
    simps, rec = simplifiers()
    out = []
    if info is None:
        info = {}
    envs = None
    for cname in CONFIGS:
        simp = simps[cname]
        rec.reset()
        try:
            r = call_with_limit(LIMIT_S, simp, e)
        except TimeLimit:
            simp.cache.clear()
            if stats is not None:
                stats["inconclusive:time-limit"] += 1
            continue
        except RecursionError as ex:
            simp.cache.clear()
            out.append(("%s:exception:RecursionError" % cname, "%s(%s)" % (cname, e)))
            continue
        except Exception as ex:
            simp.cache.clear()
            import traceback
            tb = traceback.extract_tb(ex.__traceback__)
            where = "?"
            for fr in reversed(tb):
                if "/miasm/" in fr.filename:
                    where = "%s:%s" % (fr.filename.split("/miasm/")[-1], fr.name)
                    break
            out.append(("%s:exception:%s@%s" % (cname, type(ex).__name__, where),
                        "%s(%s) raised %r" % (cname, e, ex)))
            continue
        fired = set(rec.fired)
        steps = list(rec.steps)
        if stats is not None:
            for f in fired:
                stats["fired:" + f] += 1
            if r is not e:
                stats["changed:" + cname] += 1
        if r.size != e.size:
            out.append(("%s:width" % cname, "%s(%s) = %s has width %d, expected %d" % (cname, e, r, r.size, e.size)))
            continue
        if r is e:
            continue
        info["changed"] = True
        info.setdefault("result", str(r))
        if envs is None:
            envs = list(simplab.valuations(e))
        res, n_ok = simplab.compare(e, r, envs)
        if stats is not None:
            stats["valuations"] += n_ok
            if envs and envs[0][1]:
                stats["exhaustive-valuation cases"] += 1
        if res is None:
            continue
        if res == "uninterpreted":
            if stats is not None:
                stats["uninterpreted (crash/width only)"] += 1
            continue
        kind, env, a, b = res
        # re-run with a cold cache so that every rewrite step is recorded
        simp.cache.clear()
        rec.reset()
        try:
            call_with_limit(LIMIT_S, simp, e)
            steps = list(rec.steps)
        except BaseException:
            pass
        rule = simplab.attribute(steps, env)
        bucket = "rule:%s" % rule if rule else "%s:unattributed" % cname
        if kind == "undefined-result":
            bucket += ":undefined-result"
        out.append((bucket, "%s(%s) = %s ; under %s original=0x%x simplified=%s"
                    % (cname, e, r, simplab.env_desc(env), a, "undefined" if b is None else hex(b))))
    return out


class C01(Check):
    pid = "C01"
    rule = ("Hypothesis: union of free expression trees (all operators the passes inspect, widths 1..128, depth<=3, "
            "memory reads with pointer widths 8/16/32/64) and 9 rule-directed template families with boundary "
            "constants; each simplified with expr_simp, expr_simp_high_to_explicit and expr_simp_explicit; value "
            "compared with the reference evaluator under all valuations when identifiers total <=10 bits, else 5 "
            "boundary + 24 pseudo-random valuations. Non-trivial: a rewrite changed the expression (result is not "
            "the input); distinct by expression text.")
    assumptions = ["memory is little-endian (the simplifier's ExprMem slice/merge rules assume it)",
                   "a read whose size is not a multiple of 8 takes the low bits of the enclosing bytes",
                   "division by zero is undefined: valuations undefined on the original are dropped",
                   "operators without evaluation rule (FLAG_SIGN_ADD, fpu, call_*) only checked for crash/width"]
    level_text = ("randomized differential testing of the three shipped simplifier configurations against an "
                  "independent evaluator, with per-rule attribution and measured rule coverage")
    technique = "property-based differential testing (Hypothesis generators, reference evaluator oracle)"

    def nshards(self, tier):
        return 64 if tier == "thorough" else 16

    def run_shard(self, tier, seed, shard, nshards):
        from hypothesis import given, settings, seed as hseed, HealthCheck, Phase
        res = ShardResult()
        nex = 12000 if tier == "thorough" else 1500
        cnt = [0]

        @hseed(seed)
        @settings(max_examples=nex, database=None, deadline=None, derandomize=False,
                  suppress_health_check=list(HealthCheck), phases=[Phase.generate])
        @given(exprgen.any_expr(depth=3))
        def t(te):
            tag, e = te
            cnt[0] += 1
            if cnt[0] % 3000 == 0:
                for s in simplifiers()[0].values():
                    s.cache.clear()
            info = {}
            fails = judge(e, res.counters, info)
            res.counters["gen:" + tag] += 1
            nt = info.get("changed", False)
            res.case(nontrivial_key=repr(e) if nt else None,
                     sample={"expr": str(e), "simplified": info.get("result")}
                     if nt and cnt[0] % 97 == 0 else None)
            for b, d in fails:
                res.fail(b, d, {"expr": simplab.ser(e)})
        t()
        return res

    def replay(self, case):
        e = simplab.deser(case["expr"])
        fails = judge(e)
        if not fails:
            return None
        want = case.get("_bucket")
        for b, d in fails:
            if want is None or b == want:
                return Failure(b, d, case)
        b, d = fails[0]
        return Failure(b, d, case)

    def shrink(self, failure, tier):
        e = simplab.deser(failure.case["expr"])

        def pred(x):
            return any(b == failure.bucket for b, _ in judge(x))
        small = simplab.shrink_expr(e, pred, budget=1500 if tier == "quick" else 6000)
        for b, d in judge(small):
            if b == failure.bucket:
                return Failure(b, d, {"expr": simplab.ser(small)})
        return failure

    def extra_evidence(self, m):
        fired = {k[6:]: v for k, v in m.counters.items() if k.startswith("fired:")}
        allrules = set()
        try:
            from miasm.expression.simplifications import ExpressionSimplifier as ES
            for d in (ES.PASS_COMMONS, ES.PASS_HIGH_TO_EXPLICIT):
                for lst in d.values():
                    for fn in lst:
                        allrules.add(fn.__name__)
        except Exception:
            pass
        return {"rules_fired": fired, "rules_never_fired": sorted(allrules - set(fired))}


CHECK = C01()
