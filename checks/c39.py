"""C39 — dependency-graph slices are faithful to the program.

Generated: loop-free structured IR graphs (vlib.irgraphgen.graph restricted to block / sequence /
diamond / if-then / multi-way / early-exit shapes) over 4 data registers, 2 flags, an 8-bit and a
16-bit identifier and 32-bit memory cells @32[ESP + 4k] / @32[0x1000 + 4k] whose pointers are never
redefined, so that two cells are either syntactically identical or disjoint (DependencyGraph tracks
memory "syntactically": that is its documented domain).  A target = (block, line, 1..2 elements:
registers or one of the memory cells).

Explicit mode (DependencyGraph(ircfg), default options).  For every solution (at most 12 per target)
and 3 initial states: the values DependencyResult.emul() gives for the elements, evaluated by the
reference evaluator on the state, equal the values the elements have after the concrete interpreter
has executed the *full* blocks of the solution's history in order (the target block up to the target
line), started on that state at the first block of the history.

Implicit mode (DependencyGraph(ircfg, implicit=True), z3).  For every solution and state: emul()
builds the path constraints; with every register and every memory byte the run reads fixed to the
state's values, the constraints are satisfiable exactly when the concrete execution started at the
first block of the history follows the history up to the target block.  The element values are
compared as in explicit mode when the path is followed.

If a failure disappears with apply_simp=False the bucket is prefixed via-simplifier.
"""
from hypothesis import strategies as st

from vlib.runner import Check, ShardResult, Failure
from vlib import hyp
from vlib import irgraphgen as gg

_state = {}
MAX_SOL = 12
NSTATES = 3
SHAPES = ["block", "seq", "diamond", "diamond", "diamond", "ifthen", "ifthen", "multiway", "multiway", "earlyexit"]


def voc():
    if "voc" not in _state:
        _state["voc"] = gg.Vocab(nvars=4, flags=2, small=True, mem=True, calls=False, rich=False, ncounters=0,
                                 mem_bases=("sp", "abs"), offs=[0, 4, 8, 12, 0xfffffffc], mem_widths=[32],
                                 exits=("reg", "loc", "int"))
    return _state["voc"]


@st.composite
def cases(draw):
    v = voc()
    g = draw(gg.graph(v, depth=3, max_blocks=9, shapes=SHAPES, head_loop=False))
    b = draw(st.integers(0, len(g["blocks"]) - 1))
    if draw(st.booleans()):
        # the final exit block (emitted last): every path of the function reaches it
        b = len(g["blocks"]) - 1
    nl = len(g["blocks"][b]["assignblks"])
    line = draw(st.integers(0, nl))
    if draw(st.integers(0, 2)) == 0:
        line = nl
    elems = []
    cands = v.vars()
    # elements assigned in >= 2 blocks give several solutions: prefer them
    nblk = {}
    for blk in g["blocks"]:
        for d in set(d for ab in blk["assignblks"] for d, _ in ab):
            nblk[d] = nblk.get(d, 0) + 1
    multi = sorted((d for d, k in nblk.items() if k >= 2 and not (d.is_id() and d.name == "IRDst")), key=str)
    n = draw(st.integers(1, 2))
    for _ in range(n):
        if multi and draw(st.integers(0, 3)) != 0:
            e = draw(st.sampled_from(multi))
        elif draw(st.integers(0, 4)) == 0:
            e = draw(gg.mem_cell(v, 32))
        else:
            e = draw(st.sampled_from(cands))
        if e not in elems:
            elems.append(e)
    return {"graph": g, "block": g["blocks"][b]["loc"], "line": line, "elements": elems}


def ser_case(c):
    from vlib import irgen
    return {"graph": gg.ser(c["graph"]), "block": c["block"], "line": c["line"],
            "elements": [irgen.ser_expr(e) for e in c["elements"]]}


def deser_case(js):
    from vlib import irgen
    return {"graph": gg.deser(js["graph"]), "block": js["block"], "line": js["line"],
            "elements": [irgen.deser_expr(e) for e in js["elements"]]}


def where_of(ex):
    import traceback
    for fr in reversed(traceback.extract_tb(ex.__traceback__)):
        if "/miasm/" in fr.filename:
            return "%s:%s" % (fr.filename.split("/miasm/")[-1], fr.name)
    return "?"


def run_history(ircfg, history, target_line, state):
    """execute the full blocks of `history` (target block last, truncated at target_line) on state"""
    from vlib import irinterp
    for idx, lk in enumerate(history):
        blk = list(ircfg.blocks[lk])
        if idx == len(history) - 1:
            blk = blk[:target_line]
        irinterp.run_block(blk, state)


def follows(ircfg, history, state):
    """does concrete execution started at history[0] go through history[1:] ?"""
    from vlib import irinterp
    from vlib.refeval import mask
    irinterp.bind_locs(state, ircfg.loc_db, irinterp.loc_keys_of(ircfg), 32)
    for idx, lk in enumerate(history[:-1]):
        dst = irinterp.run_block(ircfg.blocks[lk], state)
        if dst is None or dst != state.locs[history[idx + 1]] & mask(32):
            return False
    return True


def judge_mode(case, implicit, apply_simp, stats=None, info=None):
    """-> list of (bucket suffix, detail)"""
    from miasm.analysis.depgraph import DependencyGraph
    from vlib import irinterp
    g = case["graph"]
    lifter, ircfg, keys = gg.build(g)
    target = keys[case["block"]]
    elements = set(case["elements"])
    line = case["line"]
    mode = "implicit" if implicit else "explicit"
    try:
        dg = DependencyGraph(ircfg, implicit=implicit, apply_simp=apply_simp)
        sols = []
        for sol in dg.get(target, elements, line, set()):
            sols.append(sol)
            if len(sols) >= MAX_SOL:
                break
    except Exception as ex:
        return [("%s:exception:%s@%s" % (mode, type(ex).__name__, where_of(ex)), "DependencyGraph.get raised %r" % ex)]
    if info is not None:
        info[mode + ":solutions"] = len(sols)
    if stats is not None:
        stats[mode + ":solutions"] += len(sols)
    names = gg.STATE_REGS
    for si, sol in enumerate(sols):
        history = list(reversed(sol.history))
        try:
            vals = sol.emul(lifter)
        except Exception as ex:
            return [("%s:exception:%s@%s" % (mode, type(ex).__name__, where_of(ex)), "emul raised %r" % ex)]
        for k in range(NSTATES):
            st0 = gg.init_state(k)
            for nm, sz in names:
                st0.set_reg(nm, sz, st0.reg(nm, sz))
            run = st0.copy()
            irinterp.bind_locs(run, ircfg.loc_db, irinterp.loc_keys_of(ircfg), 32)
            st0.locs = dict(run.locs)
            followed = True
            if implicit:
                import z3
                f = st0.copy()
                followed = follows(ircfg, history, f)
                solver = sol._solver
                solver.push()
                try:
                    for nm, sz in names:
                        solver.add(z3.BitVec(nm, sz) == z3.BitVecVal(st0.reg(nm, sz), sz))
                    # bytes read by the concrete run along the history (initial contents)
                    h = st0.copy()
                    run_history(ircfg, history, line, h)
                    mem = z3.Array("mem32", z3.BitVecSort(32), z3.BitVecSort(8))
                    for pw, addr in sorted(set(h.all_reads) | set(f.all_reads)):
                        if pw == 32:
                            solver.add(z3.Select(mem, z3.BitVecVal(addr, 32)) == z3.BitVecVal(st0.read_mem(32, addr, 1), 8))
                    res = solver.check()
                finally:
                    solver.pop()
                if res == z3.unknown:
                    if stats is not None:
                        stats["implicit:z3-unknown"] += 1
                    continue
                sat = res == z3.sat
                if stats is not None:
                    stats["implicit:followed" if followed else "implicit:not-followed"] += 1
                if sat != followed:
                    return [("implicit:path-constraints:%s" % ("unsat-but-followed" if followed else "sat-but-not-followed"),
                             "solution %d history %s, state %d: constraints %s but the concrete execution %s the history"
                             % (si, [str(x) for x in history], k, "satisfiable" if sat else "unsatisfiable",
                                "follows" if followed else "leaves"))]
            run_history(ircfg, history, line, run)
            if stats is not None:
                stats[mode + ":evaluations"] += 1
            for e in sorted(elements, key=str):
                want = run.eval(e)
                try:
                    got = st0.copy().eval(vals[e])
                except irinterp.Undefined:
                    continue
                if want != got:
                    return [("%s:slice-value" % mode,
                             "solution %d history %s line %d, state %d: %s = 0x%x after the full blocks, emul() gives "
                             "%s = 0x%x" % (si, [str(x) for x in history], line, k, e, want, vals[e], got))]
    return []


def judge(case, stats=None, info=None):
    fails = []
    for implicit in (False, True):
        r = judge_mode(case, implicit, True, stats, info)
        for b, d in r:
            if "exception" not in b and not judge_mode(case, implicit, False):
                b = "via-simplifier:" + b
            fails.append((b, d))
    return fails


class C39(Check):
    pid = "C39"
    needs_z3 = True
    rule = ("Hypothesis: loop-free structured IR graphs (block / sequence / diamond / if-then / multi-way / early exit, "
            "<= 9 blocks) over 4 data registers, 2 flags, 8/16-bit identifiers and 32-bit cells @32[ESP+4k], "
            "@32[0x1000+4k] (syntactically equal or disjoint); target = random block, line and 1..2 elements "
            "(registers or a cell). DependencyGraph.get in explicit and implicit mode, <= 12 solutions per target, 3 "
            "states each: emul() values evaluated on the state vs concrete execution of the full blocks along the "
            "history; implicit: z3 satisfiability of the path constraints under the state vs the concrete execution "
            "following the history. Non-trivial: the target has >= 2 solutions; distinct by serialised case.")
    assumptions = ["memory cells are syntactically identical or disjoint and their pointers are never redefined "
                   "(the documented syntactic memory tracking is not challenged)",
                   "z3 decides the path constraints once every register and every byte read is fixed"]
    level_text = ("randomized comparison of dependency slices (values and path constraints) with concrete execution of "
                  "the full blocks")
    technique = "property-based differential testing (concrete IR interpreter, z3 for the path constraints)"

    def nshards(self, tier):
        return 32 if tier == "thorough" else 16

    def run_shard(self, tier, seed, shard, nshards):
        res = ShardResult()
        n = 240 if tier == "thorough" else 40
        cnt = [0]

        def one(c):
            cnt[0] += 1
            info = {}
            fails = judge(c, res.counters, info)
            nt = info.get("explicit:solutions", 0) >= 2
            js = ser_case(c)
            res.case(nontrivial_key=repr(js) if nt else None, sample=js if nt and cnt[0] % 29 == 1 else None)
            for b, d in fails:
                res.fail(b, d, js)
        hyp.survey(cases(), n, seed, one)
        return res

    def replay(self, case):
        c = deser_case(case)
        fails = judge(c)
        if not fails:
            return None
        want = case.get("_bucket")
        for b, d in fails:
            if want is None or b == want:
                return Failure(b, d, case)
        b, d = fails[0]
        return Failure(b, d, case)

    def shrink(self, failure, tier):
        c = deser_case(failure.case)

        def pred(g):
            locs = [b["loc"] for b in g["blocks"]]
            if c["block"] not in locs:
                return False
            blk = [b for b in g["blocks"] if b["loc"] == c["block"]][0]
            if c["line"] > len(blk["assignblks"]):
                return False
            cc = dict(c, graph=g)
            return any(b == failure.bucket for b, _ in judge(cc))
        small = gg.shrink_graph(c["graph"], pred, budget=150 if tier == "quick" else 800)
        cc = dict(c, graph=small)
        for b, d in judge(cc):
            if b == failure.bucket:
                return Failure(b, d, ser_case(cc))
        return failure


CHECK = C39()
