"""C18 -- x86 instruction semantics match the host processor.

Reference: the host x86-64 CPU through vlib.native_x86 (load-state; instruction; save-state in an RWX page, forked
child per batch).  Emulation: miasm's Python jitter (jitcore_python -> EmulatedSymbExec over the IR of
miasm/arch/x86/sem.py), one instruction per block.  Instructions: text templates of vlib.x86tpl assembled by miasm's
assembler (first candidate), cross-checked against LLVM (llvm-mc assembles the same text, llvm-objdump must print the
same instruction for both encodings and consume exactly miasm's bytes) -- otherwise dropped (assembler problems belong
to C15).  32-bit mode: the x86_32 emulator runs the 32-bit encoding, the host runs the 64-bit-mode encoding of the same
text on 32-bit operands (upper register halves ignored); AAA/AAS/DAA/DAS/AAM/AAD are judged against the SDM pseudo-code.
"""
import os
import re
import subprocess
import tempfile
import itertools
import shutil

from vlib.runner import Check, ShardResult, Failure, derive_seed, stable_hash
from vlib import x86tpl as T

CODE = 0x400000
CODE_SIZE = 0x100000
STACK = 0x7fff0000
EXC_DIV = 1 << 16
EXC_UNK_MNEMO = 1 << 19
GARB_GPR = [0x0123456789ABCDEF, 0xFEDCBA9876543210, 0x8000000000000001, 0x7FFFFFFFFFFFFFFE,
            0, 0xDEADBEEFCAFEF00D, 0x1111111122222222, 0x9999999988888888,
            0xA5A5A5A55A5A5A5A, 0x0F0F0F0FF0F0F0F0, 0xFFFFFFFF00000000, 0x00000000FFFFFFFF,
            0x8080808080808080, 0x7F7F7F7F7F7F7F7F, 0xC3C3C3C33C3C3C3C, 0x13579BDF2468ACE0]
GARB_XMM = [((0x9E3779B97F4A7C15 * (i + 1)) & T.mask(64)) << 64 | ((0xC2B2AE3D27D4EB4F * (i + 3)) & T.mask(64))
            for i in range(16)]

_st = {}


def base_mem():
    if "mem" not in _st:
        out = bytearray()
        x = 0x2545F4914F6CDD1D
        while len(out) < 4096:
            x ^= (x << 13) & T.mask(64)
            x ^= x >> 7
            x ^= (x << 17) & T.mask(64)
            out += x.to_bytes(8, "little")
        _st["mem"] = bytes(out[:4096])
    return _st["mem"]


def tables(tier):
    k = "tpl:" + tier
    if k not in _st:
        thorough = tier == "thorough"
        lst = T.build(64, thorough) + T.build(32, thorough)
        _st[k] = lst
        _st[k + ":idx"] = {t.key: t for t in lst}
    return _st[k]


def find_tpl(key):
    for tier in ("quick", "thorough"):
        tables(tier)
        t = _st["tpl:%s:idx" % tier].get(key)
        if t is not None:
            return t
    return None


# ---------------------------------------------------------------------------------------------
# assembling and the LLVM cross-check

def miasm_asm(text, mode):
    if "loc_db" not in _st:
        # Harness-side speed-up of miasm's text parser (3x each, measured; outputs compared equal on 937 templates):
        # pyparsing's packrat memoisation, and a memo of ParserElement.scan_string(parser, operand text) -> first
        # match, which cls_mn.fromstring calls once per candidate encoding class with the same operand text.
        import pyparsing
        pyparsing.ParserElement.enable_packrat(4096)
        orig = pyparsing.ParserElement.scan_string
        cache = {}

        def scan_cached(self, instring, *a, **k):
            if a or k:
                return orig(self, instring, *a, **k)
            key = (id(self), instring)
            r = cache.get(key)
            if r is None:
                try:
                    r = (next(orig(self, instring)),)
                except StopIteration:
                    r = ()
                cache[key] = r
            return iter(r)
        pyparsing.ParserElement.scanString = scan_cached
        pyparsing.ParserElement.scan_string = scan_cached
        from miasm.core.locationdb import LocationDB
        _st["loc_db"] = LocationDB()
    from miasm.arch.x86.arch import mn_x86
    instr = mn_x86.fromstring(text, _st["loc_db"], mode)
    cands = mn_x86.asm(instr)
    return bytes(cands[0])


def _parse_objdump(text):
    res = {}
    cur = None
    first = None
    for line in text.splitlines():
        m = re.match(r"^[0-9a-f]+ <([ab])(\d+)>:", line)
        if m:
            cur = (m.group(1), int(m.group(2)))
            first = None
            continue
        if re.match(r"^[0-9a-f]+ <zend>:", line):
            cur = None
            continue
        m = re.match(r"^\s*([0-9a-f]+):\s+(.*)$", line)
        if m and cur is not None:
            addr = int(m.group(1), 16)
            txt = " ".join(m.group(2).split())
            if first is None:
                first = addr
                res[cur] = [txt, None]
            elif res[cur][1] is None:
                res[cur][1] = addr - first
    return res


_NUM = re.compile(r"(?<![\w.])(-?)(0x[0-9a-f]+|\d+)(?![\w.])")


def norm_dis(txt, size):
    """normalise one disassembly line so that equivalent encodings of one instruction compare equal:
    numbers modulo 2^size, 'N*riz' index-less SIB terms removed, unscaled address registers sorted,
    xchg operands sorted."""
    txt = txt.lower().split("#")[0].strip()
    txt = re.sub(r"^(rex(\.[wrxb]+)?\s+)+", "", txt)
    txt = re.sub(r"\s*[+]\s*\d\s*\*\s*[re]iz|\s*[+]\s*[re]iz\s*\*\s*\d", "", txt)
    m = T.mask(min(size, 64))

    def num(mo):
        v = int(mo.group(2), 0)
        if mo.group(1):
            v = -v
        return "%d" % (v & m)

    def addr(mo):
        inner = mo.group(1).replace(" ", "")
        inner = inner.replace("-", "+-")
        terms = [t for t in inner.split("+") if t]
        regs = sorted(t for t in terms if re.fullmatch(r"[a-z][a-z0-9]*", t))
        rest = [t for t in terms if not re.fullmatch(r"[a-z][a-z0-9]*", t)]
        rest = ["%d" % (int(t, 0) & T.mask(64)) if re.fullmatch(r"-?(0x[0-9a-f]+|\d+)", t) else t.replace("*1", "") for t in rest]
        return "[" + "+".join(regs + rest) + "]"
    parts = re.split(r"(\[[^\]]*\])", txt)
    out = []
    for p in parts:
        if p.startswith("["):
            out.append(re.sub(r"\[([^\]]*)\]", addr, p))
        else:
            out.append(_NUM.sub(num, p))
    txt = "".join(out)
    txt = re.sub(r"\s*,\s*", ",", txt)
    txt = " ".join(txt.split())
    mo = re.match(r"^(xchg) (.*)$", txt)
    if mo:
        ops = re.split(r",(?![^\[]*\])", mo.group(2))
        txt = "xchg " + ",".join(sorted(ops))
    return txt


def _llvm_run(items, triple, scratch):
    """items: [(id, text or None, bytes)] -> {id: (text_of_a or None, text_of_b, len_of_b)}
    Texts are LLVM's (llvm-objdump); where LLVM prints <unknown> for miasm's bytes, GNU objdump's
    reading of both encodings is used instead."""
    rejected = set()
    for attempt in range(6):
        lines = [".intel_syntax noprefix", ".text"]
        lineof = {}
        for ident, text, code in items:
            if text is not None and ident not in rejected:
                lines.append("a%d: %s" % (ident, text))
                lineof[len(lines)] = ident
                lines.append(".p2align 4, 0x90")
            lines.append("b%d: .byte %s" % (ident, ",".join("0x%02x" % c for c in code)))
            lines.append(".p2align 4, 0x90")
        lines.append("zend: nop")
        src = os.path.join(scratch, "x.s")
        obj = os.path.join(scratch, "x.o")
        with open(src, "w") as f:
            f.write("\n".join(lines) + "\n")
        p = subprocess.run(["llvm-mc", "-triple=" + triple, "-filetype=obj", "-o", obj, src],
                           stdout=subprocess.PIPE, stderr=subprocess.PIPE)
        if p.returncode == 0:
            break
        bad = set()
        for m in re.finditer(r"x\.s:(\d+):\d+: error", p.stderr.decode("utf-8", "replace")):
            ln = int(m.group(1))
            if ln in lineof:
                bad.add(lineof[ln])
        if not bad:
            raise RuntimeError("llvm-mc failed: " + p.stderr.decode("utf-8", "replace")[:500])
        rejected |= bad
    else:
        raise RuntimeError("llvm-mc keeps failing")
    p = subprocess.run(["llvm-objdump", "-d", "-M", "intel", "--no-show-raw-insn", obj], stdout=subprocess.PIPE,
                       stderr=subprocess.PIPE)
    if p.returncode != 0:
        raise RuntimeError("llvm-objdump failed")
    res = _parse_objdump(p.stdout.decode("utf-8", "replace"))
    gnu = None
    out = {}
    for ident, text, code in items:
        a = res.get(("a", ident))
        bb = res.get(("b", ident))
        if a and bb and "<unknown>" in bb[0]:
            if gnu is None:
                p = subprocess.run(["objdump", "-d", "-M", "intel", "--no-show-raw-insn", obj], stdout=subprocess.PIPE,
                                   stderr=subprocess.PIPE)
                gnu = _parse_objdump(p.stdout.decode("utf-8", "replace")) if p.returncode == 0 else {}
            a, bb = gnu.get(("a", ident)), gnu.get(("b", ident))
            if bb and "(bad)" in bb[0]:
                bb = None
        out[ident] = (a[0] if a else None, bb[0] if bb else None, bb[1] if bb else None)
    return out


def llvm_text(tpl):
    t = tpl.ltext if tpl.ltext else tpl.text.lower()
    return t


def prepare(tpls, res):
    """Assemble (miasm) and cross-check (LLVM).  -> {tpl.key: (emu_bytes, nat_bytes)} for usable templates."""
    scratch = tempfile.mkdtemp(prefix="c18-", dir=_scratch_root())
    try:
        enc = {}
        sizes = {t.key: t.size for t in tpls}
        items = {"x86_64": [], "i386": []}
        n = 0
        for t in tpls:
            try:
                eb = miasm_asm(t.text, t.mode)
                nb = eb if t.mode == 64 else (None if t.group == "model" else miasm_asm(t.text, 64))
            except Exception as ex:
                res.dropped["miasm assembler rejects the template text (%s)" % type(ex).__name__] += 1
                res.counters["asm-rejected:" + t.mn] += 1
                continue
            enc[t.key] = [eb, nb, True]
            lt = llvm_text(t)
            items["x86_64" if t.mode == 64 else "i386"].append((n, lt, eb, t.key))
            n += 1
            if t.mode == 32 and nb is not None:
                items["x86_64"].append((n, lt, nb, t.key))
                n += 1
        for triple, its in items.items():
            if not its:
                continue
            r = _llvm_run([(i, tx, c) for i, tx, c, k in its], triple, scratch)
            for i, tx, c, k in its:
                a, bt, bl = r[i]
                if bt is None or bl != len(c) or "<unknown>" in bt:
                    enc[k][2] = False
                    res.dropped["LLVM does not decode miasm's encoding as one instruction of that length"] += 1
                elif a is None:
                    enc[k][2] = False
                    res.dropped["LLVM rejects the template text (no reference encoding)"] += 1
                    res.counters["llvm-rejects:" + k.split("|")[1].split(" ")[0]] += 1
                elif norm_dis(a, sizes[k]) != norm_dis(bt, sizes[k]):
                    enc[k][2] = False
                    res.dropped["LLVM decodes miasm's encoding as a different instruction (assembler problem, C15)"] += 1
                    res.notes.append("asm-mismatch %s: miasm bytes %s decode as '%s', LLVM assembles '%s'"
                                     % (k, c.hex(), bt, a))
        return {k: (v[0], v[1]) for k, v in enc.items() if v[2]}
    finally:
        shutil.rmtree(scratch, ignore_errors=True)


def _scratch_root():
    d = os.environ.get("TMPDIR")
    if not d or d.startswith("/tmp"):
        d = "/var/tmp"
    return d


# ---------------------------------------------------------------------------------------------
# state construction

def _set_elems(mem, ptr, n, fn):
    for i in range(-12, 13):
        v = fn(abs(i))
        mem[ptr + i * n: ptr + i * n + n] = (v & T.mask(8 * n)).to_bytes(n, "little")


def build_state(tpl, vals, flags, data_addr):
    mode = tpl.mode
    gpr = list(GARB_GPR)
    if mode == 32:
        gpr = [g & 0xFFFFFFFF for g in gpr]
    xmm = list(GARB_XMM)
    mem = bytearray(base_mem())
    for fam, off in tpl.ptrs.items():
        if isinstance(off, (tuple, list)):
            gpr[T.GPR_INDEX[fam]] = off[1]
        else:
            gpr[T.GPR_INDEX[fam]] = data_addr + off
    named = {}
    for slot, v in zip(tpl.slots, vals):
        named[slot.name] = v
        if slot.kind == "reg":
            i = T.GPR_INDEX[slot.fam]
            if slot.hi:
                gpr[i] = (gpr[i] & ~0xFF00) | ((v & 0xFF) << 8)
            elif slot.size == 64:
                gpr[i] = v & T.mask(64)
            else:
                gpr[i] = (gpr[i] & ~T.mask(slot.size)) | (v & T.mask(slot.size))
        elif slot.kind == "mem":
            nb = slot.size // 8
            mem[slot.off:slot.off + nb] = (v & T.mask(slot.size)).to_bytes(nb, "little")
        elif slot.kind == "xmm":
            xmm[slot.idx] = v & T.mask(128)
    if "pat" in named:
        n = tpl.size // 8
        pat = named["pat"]
        msb = 1 << (tpl.size - 1)
        base = tpl.mn.split("_")[-1][:4]
        if base == "CMPS":
            _set_elems(mem, tpl.ptrs["SI"], n, lambda i: 0x0101010101010101 * (i + 1))
            if pat == 0:
                f = lambda i: 0x0101010101010101 * (i + 1)
            elif pat == 1:
                f = lambda i: 0x0101010101010101 * (i + 1) + (1 if i == 0 else 0)
            elif pat == 2:
                f = lambda i: 0x0101010101010101 * (i + 1) + (1 if i == 2 else 0)
            elif pat == 3:
                f = lambda i: (0x0101010101010101 * (i + 1)) ^ (msb if i == 2 else 0)
            else:
                f = lambda i: 0x0101010101010101 * (i + 1) if i == 3 else 0x7f7f7f7f7f7f7f7f - i
            _set_elems(mem, tpl.ptrs["DI"], n, f)
        else:
            acc = named["acc"] & T.mask(tpl.size)
            if pat == 0:
                f = lambda i: acc
            elif pat == 1:
                f = lambda i: acc + 1 if i == 0 else acc
            elif pat == 2:
                f = lambda i: acc ^ msb if i == 2 else acc
            else:
                f = lambda i: acc if i == 2 else acc - 1 - i
            _set_elems(mem, tpl.ptrs["DI"], n, f)
    if mode == 32:
        gpr = [g & 0xFFFFFFFF for g in gpr]
    return gpr, flags & 0xCD5, xmm, bytes(mem), named


# ---------------------------------------------------------------------------------------------
# emulation

class Emu(object):
    def __init__(self, mode, data_addr, jit="python"):
        from miasm.analysis.machine import Machine
        from miasm.core.locationdb import LocationDB
        from miasm.jitter.csts import PAGE_READ, PAGE_WRITE
        self.mode = mode
        self.data_addr = data_addr
        self.loc_db = LocationDB()
        self.j = Machine("x86_%d" % mode).jitter(self.loc_db, jit)
        self.j.jit.set_options(jit_maxline=1, max_exec_per_call=1)
        self.j.vm.add_memory_page(CODE, PAGE_READ | PAGE_WRITE, b"\x90" * CODE_SIZE, "code")
        self.j.vm.add_memory_page(data_addr, PAGE_READ | PAGE_WRITE, b"\x00" * 4096, "data")
        self.j.vm.add_memory_page(STACK - 0x1000, PAGE_READ | PAGE_WRITE, b"\x00" * 0x2000, "stack")
        self.next = CODE
        self.placed = {}
        self.nregs = 16 if mode == 64 else 8
        self.rn = [T.FAM[f][64] for f in T.GPR_ORDER]

    def place(self, code):
        a = self.placed.get(code)
        if a is None:
            a = self.next
            self.next += 16
            if self.next >= CODE + CODE_SIZE:
                raise RuntimeError("code area exhausted")
            self.j.vm.set_mem(a, code)
            self.placed[code] = a
        return a

    def run(self, code, gpr, flags, xmm, mem):
        """-> dict(gpr, flags, xmm, mem, exc, pc) ; raises whatever miasm raises"""
        j = self.j
        cpu = j.cpu
        addr = self.place(code)
        for i, name in enumerate(self.rn):
            setattr(cpu, name, gpr[i])
        cpu.RSP = STACK
        for f, bit in T.FLAG_BIT.items():
            setattr(cpu, f, flags >> bit & 1)
        for i in range(16):
            setattr(cpu, "XMM%d" % i, xmm[i])
        j.vm.set_mem(self.data_addr, mem)
        j.vm.reset_memory_access()
        cpu.set_exception(0)
        j.vm.set_exception(0)
        pc = addr
        end = addr + len(code)
        steps = 0
        exc = 0
        while True:
            pc = j.jit.run_at(cpu, pc, set())
            steps += 1
            exc = cpu.get_exception() | j.vm.get_exception()
            if exc or pc != addr or steps > 200:
                break
        out = {"gpr": [getattr(cpu, n) for n in self.rn], "pc": pc, "end": end, "exc": exc, "steps": steps}
        fl = 0
        for f, bit in T.FLAG_BIT.items():
            fl |= (getattr(cpu, f) & 1) << bit
        out["flags"] = fl
        out["xmm"] = [getattr(cpu, "XMM%d" % i) for i in range(16)]
        out["mem"] = j.vm.get_mem(self.data_addr, 4096)
        cpu.set_exception(0)
        j.vm.set_exception(0)
        return out


def get_emu(mode, jit="python"):
    k = ("emu", mode, jit)
    if k not in _st:
        from vlib import native_x86 as nx
        _st[k] = Emu(mode, nx.data_addr(), jit)
    return _st[k]


# ---------------------------------------------------------------------------------------------
# judging

def fmt_inputs(tpl, named, flags):
    parts = []
    for s in tpl.slots:
        v = named[s.name]
        if s.kind == "reg":
            where = T.rname(s.fam, s.size if s.size in (8, 16, 32, 64) else 64, s.hi) if s.size in (8, 16, 32, 64) else s.fam
        elif s.kind == "mem":
            where = "[win+0x%x]" % s.off
        elif s.kind == "xmm":
            where = "XMM%d" % s.idx
        else:
            where = s.name
        parts.append("%s=0x%x" % (where, v))
    fl = "".join(T.SDM_NAME[f] + "=%d " % (flags >> b & 1) for f, b in sorted(T.FLAG_BIT.items(), key=lambda kv: kv[1]))
    return ", ".join(parts) + " ; " + fl.strip()


def bucket(tpl, resource):
    return "x86_%d:%s:%s:%s" % (tpl.mode, tpl.mn, tpl.form, resource)


def expected_from_model(tpl, named, flags, gpr):
    al, ah = named["al"], named["ah"]
    r = T.model(tpl.model, al, ah, flags >> 4 & 1, flags & 1, tpl.imm)
    if r == "DE":
        return "DE"
    g = list(gpr)
    g[0] = (g[0] & ~0xFFFF) | r["ah"] << 8 | r["al"]
    return g, r["flags"]


def judge(tpl, code, vals, flags, nat, emu_fn, data_addr):
    """nat: native Out or None (model templates).  -> (list of (bucket, detail), nontrivial bool, drop reason or None)"""
    gpr, fl, xmm, mem, named = build_state(tpl, vals, flags, data_addr)
    undef_f, undef_r, drop = T.undefined(tpl, named)
    if drop:
        return [], False, drop
    head = "%s [x86_%d bytes %s] from %s" % (tpl.text, tpl.mode, code.hex(), fmt_inputs(tpl, named, fl))
    # reference outcome
    if tpl.group == "model":
        ex = expected_from_model(tpl, named, fl, gpr)
        ref_fault = ex == "DE"
        if not ref_fault:
            ref_gpr, ref_flags_d = ex
            ref_flags = fl
            for f, v in ref_flags_d.items():
                ref_flags = (ref_flags & ~(1 << T.FLAG_BIT[f])) | v << T.FLAG_BIT[f]
            ref_xmm, ref_mem = xmm, mem
        refname = "SDM model"
    else:
        if nat.status not in (0, 8):
            return [], False, "native execution raised %s (not a division fault)" % nat.signame()
        ref_fault = nat.status == 8
        if not ref_fault:
            ref_gpr, ref_flags, ref_xmm, ref_mem = nat.gpr, nat.rflags, nat.xmm, nat.mem
        refname = "native"
    try:
        emu = emu_fn(code, gpr, fl, xmm, mem)
    except NotImplementedError as ex:
        return [], False, "unsupported:" + str(ex)[:60]
    except Exception as ex:
        import traceback
        tb = traceback.extract_tb(ex.__traceback__)
        where = "?"
        for fr in reversed(tb):
            if "/miasm/" in fr.filename:
                where = "%s:%s" % (fr.filename.split("/miasm/")[-1], fr.name)
                break
        return [(bucket(tpl, "emul-error:%s@%s" % (type(ex).__name__, where)),
                 "%s: emulation raised %r" % (head, ex))], True, None
    fails = []
    if emu["exc"] & EXC_UNK_MNEMO:
        return [], False, "miasm does not disassemble the encoding its assembler produced (round trip: C14/C15)"
    emu_fault = bool(emu["exc"] & EXC_DIV)
    if ref_fault or emu_fault:
        if ref_fault != emu_fault:
            fails.append((bucket(tpl, "fault"),
                          "%s: %s %s, emulation %s (exception_flags=0x%x)"
                          % (head, refname, "raises #DE" if ref_fault else "completes without fault",
                             "reports a division fault" if emu_fault else "completes without division fault", emu["exc"])))
        return fails, True, None
    if emu["exc"]:
        fails.append((bucket(tpl, "emul-exception"), "%s: emulation stops with exception_flags=0x%x, %s completes"
                      % (head, emu["exc"], refname)))
        return fails, True, None
    if emu["pc"] != emu["end"]:
        fails.append((bucket(tpl, "pc"), "%s: emulation continues at 0x%x, expected next instruction 0x%x (steps=%d)"
                      % (head, emu["pc"], emu["end"], emu["steps"])))
        return fails, True, None
    m = T.mask(tpl.mode)
    nreg = 16 if tpl.mode == 64 else 8
    bad = []
    for i in range(nreg):
        fam = T.GPR_ORDER[i]
        if fam in undef_r:
            continue
        if i == 4:
            if emu["gpr"][4] != STACK:
                bad.append("RSP changed by 0x%x" % (emu["gpr"][4] - STACK))
            continue
        if (emu["gpr"][i] & m) != (ref_gpr[i] & m):
            bad.append("%s %s=0x%x emulated=0x%x" % (T.FAM[fam][tpl.mode], refname, ref_gpr[i] & m, emu["gpr"][i] & m))
    if bad:
        fails.append((bucket(tpl, "reg"), "%s: %s" % (head, "; ".join(bad))))
    bad = []
    for i in range(16):
        if emu["xmm"][i] != ref_xmm[i]:
            bad.append("XMM%d %s=0x%032x emulated=0x%032x" % (i, refname, ref_xmm[i], emu["xmm"][i]))
    if bad:
        fails.append((bucket(tpl, "xmm"), "%s: %s" % (head, "; ".join(bad))))
    if emu["mem"] != ref_mem:
        diffs = [i for i in range(4096) if emu["mem"][i] != ref_mem[i]]
        lo, hi = diffs[0], min(diffs[-1] + 1, diffs[0] + 32)
        fails.append((bucket(tpl, "mem"), "%s: window bytes 0x%x..0x%x (%d differ) %s=%s emulated=%s initial=%s"
                      % (head, lo, hi, len(diffs), refname, ref_mem[lo:hi].hex(), emu["mem"][lo:hi].hex(), mem[lo:hi].hex())))
    for f, bit in T.FLAG_BIT.items():
        if f in undef_f:
            continue
        a, e = ref_flags >> bit & 1, emu["flags"] >> bit & 1
        if a != e:
            fails.append((bucket(tpl, "flag:" + T.SDM_NAME[f]),
                          "%s: %s %s=%d emulated=%d (was %d; undefined flags for this case: %s)"
                          % (head, T.SDM_NAME[f], refname, a, e, fl >> bit & 1,
                             ",".join(sorted(T.SDM_NAME[x] for x in undef_f)) or "none")))
    nontrivial = (ref_gpr != gpr or ref_flags != fl or ref_xmm != xmm or ref_mem != mem)
    return fails, nontrivial, None


# ---------------------------------------------------------------------------------------------
# case enumeration

def det_cases(tpl, tier):
    """deterministic stratum: product of the slot boundary values x flag sets, capped by a stride"""
    depth = tpl.depth
    if tier == "thorough":
        depth = 1
    lists = [s.values(depth) for s in tpl.slots]
    fsets = T.flagsets(tpl.flagsets)
    lists.append(fsets)
    total = 1
    for l in lists:
        total *= len(l)
    cap = tpl.cap or (240 if tier == "thorough" else (64 if tpl.depth else 24))
    if os.environ.get("C18_DEVCAP"):
        cap = min(cap, int(os.environ["C18_DEVCAP"]))
    if total <= cap:
        for combo in itertools.product(*lists):
            yield list(combo[:-1]), combo[-1]
        return
    # mixed-radix index sampling with a stride that is coprime with every radix pattern
    step = total / float(cap)
    seen = set()
    for k in range(cap):
        idx = int(k * step)
        # decorrelate the digits: use a multiplicative permutation of the index space
        idx = (idx * 2654435761 + k) % total
        if idx in seen:
            continue
        seen.add(idx)
        combo = []
        for l in lists:
            combo.append(l[idx % len(l)])
            idx //= len(l)
        yield combo[:-1], combo[-1]


def shard_templates(allt, tier, shard, nshards):
    """Templates with the same operand text go to the same shard (the parser memo then serves all the mnemonics);
    groups are dealt greedily, largest estimated cost first, to the least loaded shard (deterministic)."""
    groups = {}
    for t in allt:
        key = t.text if t.text.startswith("REP") else t.text.split(" ", 1)[-1]
        groups.setdefault(key, []).append(t)
    costs = []
    for key, ts in groups.items():
        c = 0
        for t in ts:
            n = 1
            for sl in t.slots:
                n *= len(sl.values(1 if tier == "thorough" else t.depth))
            n *= len(T.flagsets(t.flagsets))
            cap = t.cap or (240 if tier == "thorough" else (64 if t.depth else 24))
            c += min(n, cap) + 25
        costs.append((c, key))
    costs.sort(key=lambda ck: (-ck[0], ck[1]))
    load = [0] * nshards
    mine = []
    for c, key in costs:
        i = min(range(nshards), key=lambda k: (load[k], k))
        load[i] += c
        if i == shard:
            mine.extend(groups[key])
    return mine


def slot_strategy(slot):
    from hypothesis import strategies as st
    full = slot.values(1)
    if slot.kind == "pat" or slot.vclass in ("bitoff_mem", "rep"):
        return st.sampled_from(full)
    if slot.name in ("base", "index"):
        return st.sampled_from(full) | st.integers(0, T.mask(slot.size))
    if slot.vclass == "count":
        return st.integers(0, 255)
    bits = slot.size
    return st.one_of(st.sampled_from(full), st.integers(0, T.mask(bits)),
                     st.integers(0, T.mask(bits)).map(lambda v: v & (v >> 3) if False else v),
                     st.sampled_from(T.vals_int(min(bits, 64), 1)))


def case_strategy(tpls):
    from hypothesis import strategies as st

    @st.composite
    def one(draw):
        i = draw(st.integers(0, len(tpls) - 1))
        t = tpls[i]
        vals = [draw(slot_strategy(s)) & T.mask(s.size) if s.kind != "pat" else draw(slot_strategy(s)) for s in t.slots]
        fl = draw(st.integers(0, 127))
        flags = 0
        for k, f in enumerate(("cf", "pf", "af", "zf", "nf", "of", "df")):
            if fl >> k & 1:
                flags |= 1 << T.FLAG_BIT[f]
        if t.group == "noflags" and t.flagsets not in ("df", "dfonly") and t.mn not in ("CLD", "STD"):
            pass
        return i, vals, flags
    return one()


# ---------------------------------------------------------------------------------------------

class quiet_stderr(object):
    """miasm's VM prints a WARNING line on stderr for every unmapped access: keep the run quiet
    (harness errors travel as exceptions through the runner, not through this descriptor)"""

    def __enter__(self):
        self.saved = os.dup(2)
        devnull = os.open(os.devnull, os.O_WRONLY)
        os.dup2(devnull, 2)
        os.close(devnull)

    def __exit__(self, *exc):
        os.dup2(self.saved, 2)
        os.close(self.saved)
        return False


class C18(Check):
    pid = "C18"
    level = "exploration"
    needs_build = True
    rule = ("text templates (mnemonic x operand form reg/reg, reg/imm, reg/mem, mem/reg, mem/imm x size 8/16/32/64 x register "
            "set legacy/REX/high-byte/accumulator x addressing form) for integer arithmetic/logic, shifts/rotates/double shifts, "
            "bt*/bsf/bsr, mul/imul/div/idiv, string instructions with and without rep/repe/repne and both directions, "
            "cmovcc/setcc (all condition spellings), bswap/xchg/xadd/cmpxchg/cmpxchg8b/16b, movzx/movsx/movsxd, lea, "
            "cbw-family, lahf/sahf/flag instructions, xlat, SSE/SSE2(+SSSE3/SSE4.1 where miasm has them) integer and move "
            "instructions; assembled by miasm (first candidate) and accepted only when LLVM decodes the bytes to the "
            "instruction LLVM assembles from the same text. Deterministic stratum: product of per-operand boundary values "
            "(0, 1, -1, msb, msb-1, alternating bits, counts 0/1/width-1/width/width+1/masks, divisors 0/1/-1, INT_MIN "
            "dividends) x input-flag sets, capped per template by index striding; Hypothesis supplement: random template, "
            "random/boundary operand values, random input flags. Judged after one emulated instruction (Python jitter): "
            "general registers (low 32 bits in 32-bit mode), XMM0-15, the 4 KiB window, every flag the SDM defines for the "
            "case (table in coverage.undefined_flags), DF; native #DE <=> EXCEPT_DIV_BY_ZERO. Non-trivial: the reference "
            "outcome differs from the initial state or faults; distinct by (mode, text, operand values, flags).")
    assumptions = ["the host CPU implements the Intel SDM semantics for every flag the SDM defines (undefined flags, and "
                   "destinations the SDM calls undefined, are not compared)",
                   "32-bit mode: the x86_32 emulation of the 32-bit encoding is compared with the native long-mode execution "
                   "of the same text re-assembled for 64-bit mode, on zero-extended 32-bit register values",
                   "AAA/AAS/DAA/DAS/AAM/AAD (not executable in long mode) are judged against a transcription of the SDM pseudo-code",
                   "alignment faults (movdqa/movaps on unaligned addresses) are outside the statement: aligned addresses only",
                   "RSP is not an operand of any generated instruction; stack instructions are excluded",
                   "templates whose mnemonic miasm does not assemble or lift (popcnt, lzcnt, tzcnt, andn, movbe, ...) are not "
                   "'supported instructions' and are counted as dropped"]
    level_text = ("differential testing of single instructions against the host CPU (and SDM models for the six "
                  "non-long-mode instructions) over a deterministic template x boundary-value product plus random values")
    technique = "differential execution against the native processor through an RWX trampoline; SDM pseudo-code models"

    def nshards(self, tier):
        return 48 if tier == "thorough" else 16

    # -- cases of several templates through both sides (one native batch per group) ---------
    def run_group(self, res, jobs, stratum, unsupported):
        """jobs: [(tpl, (emu_bytes, native_bytes), [(vals, flags), ...])]"""
        from vlib import native_x86 as nx
        data = nx.data_addr()
        ncs = []
        for tpl, (eb, nb), cases in jobs:
            if tpl.group == "model":
                continue
            for vals, flags in cases:
                gpr, fl, xmm, mem, named = build_state(tpl, vals, flags, data)
                ncs.append(nx.Case(nb, gpr, fl, xmm, mem))
        nats = iter(nx.run_batch(ncs))
        del ncs
        for tpl, (eb, nb), cases in jobs:
            emu = get_emu(tpl.mode)
            for vals, flags in cases:
                nat = None if tpl.group == "model" else next(nats)
                if tpl.key in unsupported:
                    continue
                fails, nt, drop = judge(tpl, eb, vals, flags, nat, emu.run, data)
                if drop:
                    if drop.startswith("unsupported:"):
                        res.dropped["instruction not supported by the lifter (NotImplementedError)"] += 1
                        res.counters["unsupported:" + tpl.mn] += 1
                        unsupported.add(tpl.key)
                    else:
                        res.dropped[drop] += 1
                        if drop.startswith("miasm does not disassemble"):
                            res.counters["undecodable:" + tpl.mn] += 1
                            unsupported.add(tpl.key)      # same bytes for every case of the template
                    continue
                key = (tpl.key, tuple(vals), flags) if nt else None
                sample = None
                if nt and len(res.samples) < 4 and (len(vals) + flags) % 7 == 3:
                    sample = {"mode": tpl.mode, "text": tpl.text, "vals": [hex(v) for v in vals], "flags": hex(flags)}
                res.case(nontrivial_key=key, sample=sample)
                res.counters["%s:x86_%d:%s" % (stratum, tpl.mode, tpl.group)] += 1
                res.counters["mn:" + tpl.mn.split("_")[-1]] += 1
                for bk, detail in fails:
                    res.fail(bk, detail, {"mode": tpl.mode, "text": tpl.text, "vals": [hex(v) for v in vals],
                                          "flags": flags, "_bucket": bk})

    def run_jobs(self, res, jobs, stratum, unsupported, group_size=256):
        cur, n = [], 0
        for job in jobs:
            cases = job[2]
            # split very large case lists
            for i in range(0, max(len(cases), 1), group_size):
                part = cases[i:i + group_size]
                cur.append((job[0], job[1], part))
                n += len(part)
                if n >= group_size:
                    self.run_group(res, cur, stratum, unsupported)
                    cur, n = [], 0
        if cur:
            self.run_group(res, cur, stratum, unsupported)

    def run_shard(self, tier, seed, shard, nshards):
        with quiet_stderr():
            return self._run_shard(tier, seed, shard, nshards)

    def _run_shard(self, tier, seed, shard, nshards):
        res = ShardResult()
        res.max_failures_per_bucket = 2
        allt = tables(tier)
        mine = shard_templates(allt, tier, shard, nshards)
        if os.environ.get("C18_ONLY"):       # development aid: restrict to mnemonics matching a regex
            mine = [t for t in mine if re.fullmatch(os.environ["C18_ONLY"], t.mn)]
        encs = prepare(mine, res)
        usable = [t for t in mine if t.key in encs]
        unsupported = set()
        self.run_jobs(res, ((t, encs[t.key], list(det_cases(t, tier))) for t in usable), "det", unsupported)
        res.exhaustive["AAA/AAS/DAA/DAS/AAM/AAD over AL x AF x CF (AH boundary values in the quick tier)"] = True
        # Hypothesis supplement
        pool = [t for t in usable if t.key not in unsupported and t.group != "model"]
        if pool:
            from vlib import hyp
            n = 1500 if tier == "thorough" else 220
            got = []
            hyp.survey(case_strategy(pool), n, seed, got.append)
            by = {}
            for i, vals, flags in got:
                by.setdefault(i, []).append((vals, flags))
            self.run_jobs(res, ((pool[i], encs[pool[i].key], by[i]) for i in sorted(by)), "rand", unsupported)
        return res

    # -- replay / shrink ----------------------------------------------------------------------
    def _eval(self, case):
        from vlib import native_x86 as nx
        tpl = find_tpl("%d|%s" % (case["mode"], case["text"]))
        if tpl is None:
            raise RuntimeError("unknown template %r" % case["text"])
        vals = [int(v, 16) if isinstance(v, str) else v for v in case["vals"]]
        flags = case["flags"]
        eb = miasm_asm(tpl.text, tpl.mode)
        data = nx.data_addr()
        nat = None
        if tpl.group != "model":
            nb = eb if tpl.mode == 64 else miasm_asm(tpl.text, 64)
            gpr, fl, xmm, mem, named = build_state(tpl, vals, flags, data)
            nat = nx.run_batch([nx.Case(nb, gpr, fl, xmm, mem)])[0]
        with quiet_stderr():
            fails, nt, drop = judge(tpl, eb, vals, flags, nat, get_emu(tpl.mode).run, data)
        return fails

    def replay(self, case):
        fails = self._eval(case)
        if not fails:
            return None
        want = case.get("_bucket")
        for bk, d in fails:
            if bk == want:
                return Failure(bk, d, case)
        bk, d = fails[0]
        return Failure(bk, d, dict(case, _bucket=bk))

    def shrink(self, failure, tier):
        case = dict(failure.case)
        best = failure
        vals = [int(v, 16) if isinstance(v, str) else v for v in case["vals"]]

        def still(c):
            for bk, d in self._eval(c):
                if bk == failure.bucket:
                    return Failure(bk, d, c)
            return None
        for fl in (0, case["flags"] & 0x400, case["flags"] & 1):
            if fl != case["flags"]:
                c2 = dict(case, flags=fl)
                r = still(c2)
                if r:
                    case, best = c2, r
                    break
        for i in range(len(vals)):
            for cand in (0, 1, vals[i] & 0xff, vals[i] & 0xffff):
                if cand >= vals[i]:
                    continue
                nv = list(vals)
                nv[i] = cand
                c2 = dict(case, vals=[hex(v) for v in nv])
                try:
                    r = still(c2)
                except Exception:
                    r = None
                if r:
                    vals, case, best = nv, c2, r
                    break
        return best

    def extra_evidence(self, m):
        mn = {k[3:]: v for k, v in m.counters.items() if k.startswith("mn:")}
        return {"undefined_flags": T.UNDEF_DOC,
                "mnemonics_executed": len(mn),
                "unsupported_mnemonics": sorted(k.split(":", 1)[1] for k in m.counters if k.startswith("unsupported:")),
                "assembler_rejected_mnemonics": sorted(k.split(":", 1)[1] for k in m.counters if k.startswith("asm-rejected:")),
                "not_disassembled_by_miasm": sorted(k.split(":", 1)[1] for k in m.counters if k.startswith("undecodable:")),
                "llvm_rejected_mnemonics": sorted(k.split(":", 1)[1] for k in m.counters if k.startswith("llvm-rejects:"))}


CHECK = C18()
