"""C07 — Python-source and expression-construction-source translations are faithful.

(a) TranslatorPython: the emitted source is compiled and evaluated with the identifiers bound to integers and a
    `memory(addr, nbytes)` callable (little-endian view of a total hash memory); the value must equal miasm's own
    evaluation (expr_simp_explicit after substitution), kept only where the reference evaluator S agrees.
(b) TranslatorMiasm: eval(source, miasm.expression.expression namespace) must be the *same object* as the input.
"""
import ast

from vlib.runner import Check, ShardResult, Failure
from vlib import simplab, exprgen, transl
from vlib.transl import FlatEnvNoWrap as FlatEnv

PY_CFG = dict(nary=transl.NARY, binw=['-', '/', '%', '>>', '<<', '<<<', '>>>'], un=['-'], cmp=['=='], parity=True,
              ext=False, mem=True, maxw=64,
              okw=lambda op, w: (w % 8 == 0) if op == 'mem' else True)
NTUPLES = 10
SHL_SKIP = 1 << 24      # counts above: not evaluated (slow but feasible) -> inconclusive
SHL_INFEASIBLE = 1 << 40  # counts above: the int would need >= 128 GiB -> the source cannot be evaluated

WEIRD_NAMES = ["a b", "x'y", 'q"r', "back\\slash", "été", "名", "new\nline", "tab\t", "",
               "ExprId('x', 8)", "%s", "{0}", "a\\", "'", "\\'", "\x00", "x\r"]


class Infeasible(Exception):
    pass


class TooSlow(Exception):
    pass


def _shl(a, b):
    if b >= SHL_INFEASIBLE:
        raise Infeasible("%s << %#x" % (hex(a) if isinstance(a, int) else a, b))
    if b > SHL_SKIP and a:
        raise TooSlow()
    return a << b


class _GuardShl(ast.NodeTransformer):
    def visit_BinOp(self, node):
        self.generic_visit(node)
        if isinstance(node.op, ast.LShift):
            return ast.copy_location(ast.Call(func=ast.Name(id='__shl', ctx=ast.Load()),
                                              args=[node.left, node.right], keywords=[]), node)
        return node


_ccache = {}


def compile_src(src):
    if src not in _ccache:
        if len(_ccache) > 64:
            _ccache.clear()
        _ccache[src] = _compile_src(src)
    return _ccache[src]


def _compile_src(src):
    """compile the emitted expression source; `x << y` goes through a guard with identical semantics that
    refuses to build integers of more than 2^24 bits"""
    tree = ast.parse(src, mode="eval")
    tree = ast.fix_missing_locations(_GuardShl().visit(tree))
    return compile(tree, "<TranslatorPython>", "eval")


def py_translate(e):
    """-> ("src", text) | ("reject", msg) | ("exc", type name, msg)"""
    from miasm.ir.translators.python import TranslatorPython
    try:
        return ("src", TranslatorPython().from_expr(e))
    except NotImplementedError as ex:
        return ("reject", str(ex))
    except Exception as ex:
        return ("exc", type(ex).__name__, repr(ex))


def py_run(src, e, env):
    """-> ("value", v) | ("exc", type name, msg) | ("infeasible", msg) | ("slow",)"""
    try:
        code = compile_src(src)
    except Exception as ex:
        return ("exc", "compile:" + type(ex).__name__, repr(ex))
    envc = transl.clone(env)
    ns = {"__builtins__": {}, "__shl": _shl}
    for (n, s) in simplab.free_ids(e):
        ns[n] = envc.read_id(n, s)

    def memory(addr, size):
        return transl.read_mem(envc, 64, addr, 8 * size)
    ns["memory"] = memory
    try:
        v = eval(code, ns)
    except Infeasible as ex:
        return ("infeasible", str(ex))
    except TooSlow:
        return ("slow",)
    except Exception as ex:
        return ("exc", type(ex).__name__, repr(ex))
    return ("value", v)


def py_check(e, env, stats=None):
    """-> None | (kind, detail).  kind in value / exception:<T> / not-evaluable / translate-exception:<T>"""
    o = transl.oracle(e, env)
    if o[0] == "drop":
        if stats is not None:
            stats.dropped[o[1]] += 1
        return None
    t = py_translate(e)
    if t[0] == "reject":
        return None
    if t[0] == "exc":
        return ("translate-exception:" + t[1], "TranslatorPython().from_expr(%s) raised %s" % (e, t[2]))
    src = t[1]
    r = py_run(src, e, env)
    want = o[1]
    where = "expr=%s source=%s under %s" % (e, src, transl.env_desc(env))
    if r[0] == "slow":
        if stats is not None:
            stats.dropped["inconclusive: shift count in 2^24..2^40, not evaluated"] += 1
        return None
    if r[0] == "infeasible":
        return ("not-evaluable", "%s : evaluating %s needs an integer of >= 2^40 bits; miasm's value is %#x"
                % (where, r[1], want))
    if r[0] == "exc":
        return ("exception:" + r[1], "%s : raised %s ; miasm's value is %#x" % (where, r[2], want))
    got = r[1]
    if stats is not None:
        stats.counters["py:assignments compared"] += 1
    if type(got) is not int and type(got) is not bool:
        return ("value", "%s : result %r is not an integer ; miasm's value is %#x" % (where, got, want))
    if got != want:
        return ("value", "%s : python gives %#x, miasm's evaluation gives %#x" % (where, got, want))
    return None


def bad_mem_size(e):
    return any(x.__class__.__name__ == 'ExprMem' and x.size % 8 for x in simplab.subexprs(e))


def py_bucket(e, env, r):
    """attribute failure r of e under env to the innermost failing sub-expression -> (bucket, detail)"""
    op, sub = transl.blame(e, lambda x: py_check(x, env) is not None)
    if sub is not e:
        r2 = py_check(sub, env)
        if r2 is not None:
            return ("python:%s:%s" % (r2[0], op), r2[1] + "  [inside %s]" % e)
    return ("python:%s:%s" % (r[0], simplab._kind(e)), r[1])


def py_judge(e, stats=None):
    """-> list of (bucket, detail, env) (first failing assignment per bucket)"""
    if bad_mem_size(e):
        if stats is not None:
            stats.dropped["py: memory read size not a multiple of 8 (out of domain)"] += 1
        return []
    t = py_translate(e)
    if t[0] == "reject":
        if stats is not None:
            stats.dropped["py: not accepted (NotImplementedError)"] += 1
        return []
    out = {}
    envs = transl.tuples(e, NTUPLES, env_cls=FlatEnv) if t[0] == "src" else transl.tuples(e, 1, env_cls=FlatEnv)
    for env in envs:
        r = py_check(e, env, stats)
        if r is None:
            continue
        b, d = py_bucket(e, env, r)
        if b not in out:
            out[b] = (b, d, env)
    return list(out.values())


def ms_judge(e):
    """-> None | (bucket, detail)"""
    import miasm.expression.expression as m
    from miasm.ir.translators.miasm_ir import TranslatorMiasm
    try:
        src = TranslatorMiasm().from_expr(e)
    except Exception as ex:
        return ("construct:translate-exception:%s" % type(ex).__name__, "TranslatorMiasm().from_expr(%r) raised %r" % (e, ex))
    try:
        obj = eval(src, dict(vars(m)))
    except Exception as ex:
        return ("construct:eval-exception:%s" % type(ex).__name__, "eval(%r) raised %r (expression %r)" % (src, ex, e))
    if obj is not e:
        def bad(x):
            try:
                return eval(TranslatorMiasm().from_expr(x), dict(vars(m))) is not x
            except Exception:
                return True
        op, sub = transl.blame(e, bad)
        return ("construct:not-identical:%s" % op, "eval(%r) = %r is not the translated expression %r" % (src, obj, e))
    return None


def depth_of(e):
    k = simplab.children(e)
    return 1 + max([depth_of(c) for c in k]) if k else 0


def strategies():
    from hypothesis import strategies as st
    import miasm.expression.expression as m

    @st.composite
    def py_case(draw):
        if draw(st.integers(0, 9)) == 0:
            return ("py", draw(exprgen.free_expr(draw(exprgen.widths(1, 64)), 2, {"maxw": 64})))
        return ("py", draw(transl.sized_expr(PY_CFG, depth=3)))

    @st.composite
    def ms_case(draw):
        _, e = draw(exprgen.any_expr(depth=3))
        style = draw(st.integers(0, 3))
        if style >= 2:
            ren = {}
            for (n, s) in simplab.free_ids(e):
                if draw(st.booleans()):
                    nn = draw(st.one_of(st.sampled_from(WEIRD_NAMES), st.text(max_size=6)))
                    ren[m.ExprId(n, s)] = m.ExprId(nn, s)
            if ren:
                e = e.replace_expr(ren)
        if style == 1 or draw(st.integers(0, 7)) == 0:
            dst = draw(st.one_of(exprgen.ids(e.size),
                                 exprgen.free_expr(32, 1, {}).map(lambda p: m.ExprMem(p, e.size))))
            e = m.ExprAssign(dst, e)
        return ("ms", e)
    return st.one_of(py_case(), ms_case())


class C07(Check):
    pid = "C07"
    rule = ("Hypothesis. (a) TranslatorPython: expression trees over the operators it accepts (+ * ^ & | - / % >> << <<< "
            ">>> unary - parity == slices compositions conditionals memory reads of 8..64 bits), widths 1..64, depth<=3 "
            "(10% over every operator, to count rejections); the emitted source is evaluated under 10 assignments "
            "(boundary: 0, 1, -1, INT_MIN, INT_MAX, INT_MIN/-1 mixes; then boundary/small/single-bit/random picks) and "
            "compared with expr_simp_explicit after substitution. Non-trivial: contains an operator other than + & | ^; "
            "distinct by expression text. (b) TranslatorMiasm: every node kind of exprgen.any_expr (widths 1..128) plus "
            "ExprAssign, identifier names with quotes, backslashes, non-ASCII and control characters; eval(source) must be "
            "the identical object. Non-trivial: depth >= 2.")
    assumptions = ["memory(addr, nbytes) is a little-endian read of nbytes bytes; addresses do not wrap inside one read",
                   "memory read sizes are multiples of 8 bits (the translator passes size // 8)",
                   "assignments on which miasm's evaluation is not a constant, is undefined (division by zero) or "
                   "disagrees with the reference evaluator are dropped and counted",
                   "x << y is evaluated through a guard: counts in 2^24..2^40 are not evaluated (inconclusive), counts "
                   ">= 2^40 are reported as not evaluable (the integer would need >= 128 GiB)"]
    level_text = ("randomized differential testing of the emitted Python source against miasm's constant evaluation, and "
                  "of the construction source against object identity")
    technique = "property-based differential testing (Hypothesis generators, eval of emitted source)"

    def nshards(self, tier):
        return 32 if tier == "thorough" else 16

    def run_shard(self, tier, seed, shard, nshards):
        from vlib import hyp
        res = ShardResult()
        nex = 8000 if tier == "thorough" else 1000
        cnt = [0]

        def one(case):
            kind, e = case
            cnt[0] += 1
            if cnt[0] % 2000 == 0:
                transl.explicit_simp().cache.clear()
            if kind == "py":
                fails = py_judge(e, res)
                kinds = transl.op_kinds(e)
                for k in kinds:
                    res.counters["py:op:" + k] += 1
                nt = bool(kinds - {'+', '&', '|', '^', 'int', 'id'})
                res.case(nontrivial_key=("py", repr(e)) if nt else None,
                         sample={"python": str(e)} if nt and cnt[0] % 101 == 0 else None)
                for b, d, env in fails:
                    res.fail(b, d, {"kind": "py", "expr": simplab.ser(e), "env": transl.env_to_case(env)})
            else:
                res.counters["construct:cases"] += 1
                f = ms_judge(e)
                nt = depth_of(e) >= 2
                res.case(nontrivial_key=("ms", repr(e)) if nt else None,
                         sample={"construct": repr(e)} if nt and cnt[0] % 211 == 0 else None)
                if f is not None:
                    res.fail(f[0], f[1], {"kind": "ms", "expr": simplab.ser(e)})
        hyp.survey(strategies(), nex, seed, one)
        return res

    def _judge_case(self, case):
        e = simplab.deser(case["expr"])
        if case["kind"] == "ms":
            f = ms_judge(e)
            return [f] if f else []
        env = transl.env_from_case(case["env"], FlatEnv)
        if bad_mem_size(e):
            return []
        r = py_check(e, env)
        return [py_bucket(e, env, r)] if r is not None else []

    def replay(self, case):
        fails = self._judge_case(case)
        if not fails:
            return None
        want = case.get("_bucket")
        for b, d in fails:
            if want is None or b == want:
                return Failure(b, d, case)
        return Failure(fails[0][0], fails[0][1], case)

    def shrink(self, failure, tier):
        case = failure.case
        e = simplab.deser(case["expr"])

        def pred(x):
            c = dict(case, expr=simplab.ser(x))
            return any(b == failure.bucket for b, _ in self._judge_case(c))
        small = simplab.shrink_expr(e, pred, budget=400 if tier == "quick" else 2000)
        c = dict(case, expr=simplab.ser(small))
        for b, d in self._judge_case(c):
            if b == failure.bucket:
                return Failure(b, d, c)
        return failure


CHECK = C07()
