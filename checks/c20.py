"""C20 — the Python and GCC jitter backends produce the same execution.

Programs: (a) vlib.ccorpus C functions (13 fixed + generated) cross-compiled by clang for x86_32, x86_64, arml,
armtl, aarch64l, mips32l, mips32b, ppc32b, msp430; (b) hand-written templates assembled with miasm for x86_16, mepl,
mepb; (c) hand-written programs containing instructions that branch to themselves (x86_16/32/64 LOOP / LOOPNE / REP
to their own address) or tight loops branching to their own block head (x86_32 DEC/JNZ, arml SUBS/BNE), run plainly
and with breakpoints on these instructions (one hit per iteration expected).  Each program is called as f(a, b, c, arr) with the return address set to a sentinel carrying a stop
breakpoint, under several memory maps for `arr` (present, missing, read-only, split over two pages, split with the
second page read-only / missing) and once with two extra breakpoints placed on executed instructions.
Oracle: the two backends must agree on termination kind, breakpoint-hit log, final get_gpreg(), all memory pages,
cpu and vm exception flags.  (Bonus, counted but never a verdict: the host-compiled C gives the expected result.)
"""
import collections
import random

from vlib.runner import Check, ShardResult, Failure
from vlib import ccorpus, jitlab

ARCHS_C = ["x86_32", "x86_64", "arml", "armtl", "aarch64l", "mips32l", "mips32b", "ppc32b", "msp430"]
ARCHS_T = ["x86_16", "mepl", "mepb"]
PG = 0x100
STEP_LIMIT = 5000        # runiter_once rounds per run; the programs execute < 2000 instructions
MAPS_QUICK = ["rw", "rw2", "missing", "ro", "split", "split-ro", "split-missing", "bp"]
MAPS_THOROUGH = MAPS_QUICK + ["ro-split", "split-aligned", "rw3"]
# self-branching templates: plain run, then breakpoints on the self-branching instructions (every iteration must hit)
ARCHS_S = ["x86_32", "x86_16", "x86_64", "arml"]
MAPS_SELF_QUICK = ["rw", "selfbp"]
MAPS_SELF_THOROUGH = ["rw", "selfbp", "rw2", "selfbp2", "split"]

EXC_NAMES = {1 << 0: "CODE_AUTOMOD", 1 << 1: "SOFT_BP", 1 << 2: "INT_XX", 1 << 3: "SPR_ACCESS", 1 << 4: "SYSCALL",
             1 << 10: "BREAKPOINT_MEMORY", 1 << 11: "NUM_UPDT_EIP", 1 << 14: "ACCESS_VIOL", 1 << 16: "DIV_BY_ZERO",
             1 << 17: "PRIV_INSN", 1 << 18: "ILLEGAL_INSN", 1 << 19: "UNK_MNEMO", 1 << 20: "INT_1",
             1 << 25: "DO_NOT_UPDATE_PC"}


PC_REGS = {"x86_16": "RIP", "x86_32": "RIP", "x86_64": "RIP", "arml": "PC", "armtl": "PC", "aarch64l": "PC",
           "mips32l": "PC", "mips32b": "PC", "ppc32b": "PC", "msp430": "PC", "mepl": "PC", "mepb": "PC"}


def flag_names(v):
    if not isinstance(v, int):
        return repr(v)
    names = [n for b, n in sorted(EXC_NAMES.items()) if v & b and n != "DO_NOT_UPDATE_PC"]
    return "+".join(names) if names else hex(v)


def wbytes(arch):
    return 2 if arch in ("msp430", "x86_16") else 4


def inputs_for(arch, which):
    m = (1 << (8 * wbytes(arch))) - 1
    table = {
        "rw": ([5, 0x80000001, 77], [(i * 0x01010101 + 3) for i in range(8)]),
        "rw2": ([0xffffffff, 0x7fffffff, 0x12345678], [0xfffffff0 + i for i in range(8)]),
        "rw3": ([0, 0, 0], [0] * 8),
    }
    table["selfbp2"] = table["rw2"]
    args, arr = table.get(which, table["rw"])
    return [a & m for a in args], [x & m for x in arr]


def data_layout(arch, kind):
    """-> (arr address, [[addr, access, size, name]])"""
    d = jitlab.layout(arch)["data"]
    w = wbytes(arch)
    rw, ro = 3, 1
    if kind in ("rw", "rw2", "rw3", "bp", "selfbp", "selfbp2"):
        return d + 0x40, [[d, rw, PG, "data"]]
    if kind == "ro":
        return d + 0x40, [[d, ro, PG, "data"]]
    if kind == "missing":
        return d + 0x40, []
    unal = d + PG - (w + w // 2)
    if kind == "split":
        return unal, [[d, rw, PG, "data"], [d + PG, rw, PG, "data2"]]
    if kind == "split-ro":
        return unal, [[d, rw, PG, "data"], [d + PG, ro, PG, "data2"]]
    if kind == "ro-split":
        return unal, [[d, ro, PG, "data"], [d + PG, rw, PG, "data2"]]
    if kind == "split-missing":
        return unal, [[d, rw, PG, "data"]]
    if kind == "split-aligned":
        return d + PG - 4 * w, [[d, rw, PG, "data"], [d + PG, rw, PG, "data2"]]
    raise ValueError(kind)


def build_scenario(case, backend, extra=None):
    arch = case["arch"]
    be = arch in jitlab.BIG_ENDIAN
    w = wbytes(arch)
    arr_addr, pages = data_layout(arch, case["map"])
    blob = b"".join(jitlab.pack(x, w, be) for x in case["arr"])
    dpages = []
    for addr, access, size, name in pages:
        buf = bytearray(size)
        for i, byte in enumerate(blob):
            a = arr_addr + i
            if addr <= a < addr + size:
                buf[a - addr] = byte
        dpages.append([addr, access, bytes(buf), name])
    scn = jitlab.call_scenario(arch, bytes.fromhex(case["code"]), list(case["args"]) + [arr_addr], dpages,
                               code_addr=case["base"], entry=case["entry"])
    bps = [["bp", b[0], b[1], b[2]] for b in case.get("bps", [])]
    scn["script"] = scn["script"][:1] + bps + scn["script"][1:]
    scn["log_mn"] = (backend == "python")
    scn["step_limit"] = STEP_LIMIT
    if extra:
        scn.update(extra)
    return scn, arr_addr


def term_desc(obs):
    if "died" in obs:
        return "died:%s" % obs["died"]
    conts = [e for e in obs["events"] if e[0] == "cont"]
    c = conts[-1]
    if c[1] == "ret":
        return "ret:%r" % (c[2],)
    if c[1] == "jitexc":
        return "jitexc:" + flag_names(c[2])
    return "pyexc:%s@%s" % (c[2][0], c[2][1])


def term_tuple(obs):
    c = [e for e in obs["events"] if e[0] == "cont"][-1]
    if c[1] == "pyexc":
        return (c[1], c[2][0], c[2][1], c[3], c[4])
    return (c[1], c[2], c[3], c[4])


def locate(lab, case):
    """Single-step both backends, recording registers before every instruction; -> (mnemonic, detail) of the first
    instruction after which the two register files differ, or (None, '')."""
    seqs = {}
    for backend in ("python", "gcc"):
        scn, _ = build_scenario(case, backend, {"exec_cb": "regs", "log_mn": False,
                                                "options": {"jit_maxline": 1, "max_exec_per_call": 1}})
        obs = lab.run(scn, backend)
        if "events" not in obs:
            return None, ""
        seqs[backend] = [e for e in obs["events"] if e[0] == "ecb"]
    a, b = seqs["python"], seqs["gcc"]
    pcreg = PC_REGS.get(case["arch"])
    for seq in (a, b):
        for e in seq:
            e[2].pop(pcreg, None)       # the program-counter register has its own bucket (pc-register-only)
    for i in range(min(len(a), len(b))):
        if a[i][1] != b[i][1] or a[i][2] != b[i][2]:
            if i == 0:
                return None, ""
            culprit = a[i - 1][1]
            scn, _ = build_scenario(case, "python", {"log_mn": False})
            scn["script"] = [["disasm", culprit]]
            obs = lab.run(scn, "python")
            txt = "?"
            for e in obs.get("events", []):
                if e[0] == "disasm":
                    txt = e[2]
            diffs = ["%s: %s vs %s" % (k, hex(a[i][2].get(k, 0)), hex(b[i][2].get(k, 0)))
                     for k in sorted(a[i][2]) if a[i][2].get(k) != b[i][2].get(k)]
            if a[i][1] != b[i][1]:
                diffs.insert(0, "next pc %s vs %s" % (hex(a[i][1]), hex(b[i][1])))
            return txt.split()[0] if txt else "?", "after `%s` at %s: %s" % (txt, hex(culprit), "; ".join(diffs[:6]))
    return None, ""


def judge(lab, case, res=None, want_locate=True):
    """-> (list of (bucket, detail), info dict)"""
    arch, kind = case["arch"], case["map"]
    obs = {}
    info = {"nt": False}
    for backend in ("python", "gcc"):
        scn, arr_addr = build_scenario(case, backend)
        obs[backend] = lab.run(scn, backend)
    for backend in ("python", "gcc"):
        o = obs[backend]
        if "setup_error" in o:
            raise RuntimeError("jitlab setup error (%s, %s): %s\n%s" % (arch, backend, o["setup_error"], o.get("tb")))
        if "timeout" in o:
            info["dropped"] = "time-limit"
            return [], info
    py, gc = obs["python"], obs["gcc"]
    info["obs"] = obs
    prefix = "%s|map=%s" % (arch, kind)
    if "died" in py or "died" in gc:
        info["nt"] = True
        if py.get("died") == gc.get("died"):
            return [], info
        return [("%s|term|py=%s|gcc=%s" % (prefix, term_desc(py), term_desc(gc)),
                 "worker process death differs: python %r, gcc %r" % (py.get("died"), gc.get("died")))], info
    tp, tg = term_tuple(py), term_tuple(gc)
    pyc = [e for e in py["events"] if e[0] == "cont"][-1]
    info["n_instr"] = len(pyc[5] or [])
    info["trace"] = pyc[5] or []
    if tp[0] == "pyexc" and tg[0] == "pyexc":
        info["dropped"] = "unsupported-by-both:%s" % (tp[1],)
        return [], info
    fault = tp[0] != "ret" or tg[0] != "ret"
    initial = {str(p[0]): p[2] for p in build_scenario(case, "python")[0]["pages"]}
    stored = any(py["final"]["mem"].get(k, [None, None])[1] != v for k, v in initial.items())
    info["nt"] = fault or (info["n_instr"] >= 10 and stored)
    info["fault"] = fault
    fails = []
    if tp != tg:
        det = "termination differs: python %s (pc=%s running=%s), gcc %s (pc=%s running=%s)" % (
            term_desc(py), _hx(tp[-2]), tp[-1], term_desc(gc), _hx(tg[-2]), tg[-1])
        if tp[:-2] == tg[:-2]:
            what = "pc" if tp[-2] != tg[-2] else "running"
            fails.append(("%s|term-%s|%s" % (prefix, what, term_desc(py)), det))
        else:
            fails.append(("%s|term|py=%s|gcc=%s" % (prefix, term_desc(py), term_desc(gc)), det
                          + ("; python message: %s" % pyc[2][2] if tp[0] == "pyexc" else "")))
        # termination differs: the state comparison would only restate it
        return fails, info
    bp_p = [e for e in py["events"] if e[0] == "bp"]
    bp_g = [e for e in gc["events"] if e[0] == "bp"]
    if bp_p != bp_g:
        i = 0
        while i < min(len(bp_p), len(bp_g)) and bp_p[i] == bp_g[i]:
            i += 1
        fails.append(("%s|bp-log" % prefix, "breakpoint hit logs differ from entry %d: python %r..., gcc %r... "
                      "(lengths %d / %d)" % (i, bp_p[i:i + 2], bp_g[i:i + 2], len(bp_p), len(bp_g))))
    d = jitlab.diff_snap(py["final"], gc["final"])
    if d:
        first = d[0].split(":")[0].split(" (")[0]
        what = first.split("+")[0] if first.startswith("mem") else first
        if what.startswith("mem "):
            what = "mem"
        elif what.startswith("page "):
            what = "page"
        pcreg = PC_REGS.get(arch)
        if all(x.startswith("reg %s:" % pcreg) for x in d):
            # the program-counter *register* only (jitter.pc agrees): refreshed at different moments by the backends
            fails.append(("%s|state|pc-register-only" % prefix,
                          "only the %s register differs (python vs gcc) while jitter.pc agrees: %s, termination %s"
                          % (pcreg, d[0], term_desc(py))))
            return fails, info
        mn, ldet = (None, "")
        if want_locate and not fault:
            mn, ldet = locate(lab, case)
        if mn:
            bucket = "%s|state|insn=%s" % (prefix, mn)
        else:
            bucket = "%s|state%s|%s" % (prefix, "-after-fault" if fault else "", what.replace(" ", ":"))
        fails.append((bucket, "final state differs (python vs gcc), termination %s: %s%s" % (
            term_desc(py), "; ".join(d[:8]), (" -- " + ldet) if ldet else "")))
    return fails, info


def _hx(v):
    return hex(v) if isinstance(v, int) else repr(v)


# ---------------------------------------------------------------------------------------------
# planning

QUICK_FUNCS = ["arith_store", "arr_loop", "switch4", "subword", "muldiv"]


def plan_units(tier):
    """Deterministic stratum: list of unit descriptors, identical at every seed."""
    units = []
    ngen = 12 if tier == "thorough" else 1
    opts = ["-O0", "-O1", "-O2", "-Os"] if tier == "thorough" else ["-O1"]
    for arch in ARCHS_C:
        fixed = ccorpus.fixed_functions(arch)
        nf = len(fixed) + ngen
        for opt in opts:
            for k in range(nf):
                if tier != "thorough" and k < len(fixed) and fixed[k][0] not in QUICK_FUNCS:
                    continue        # quick tier: 5-6 of the fixed functions (each translated block costs a C compile)
                units.append(("c", arch, opt, k))
    for arch in ARCHS_T:
        n = len(jitlab.X86_16_TEMPLATES) if arch == "x86_16" else len(jitlab.MEP_TEMPLATES)
        for k in range(n):
            units.append(("t", arch, "", k))
    for arch in ARCHS_S:
        for k in range(len(jitlab.SELF_BRANCH_TEMPLATES[arch])):
            units.append(("s", arch, "", k))
    return units, ngen


def det_functions(arch, ngen):
    return ccorpus.fixed_functions(arch) + ccorpus.gen_functions(0, ngen, arch)


class C20(Check):
    pid = "C20"
    needs_build = True
    rule = ("programs = clang-compiled C functions (quick: 5 fixed + 1 generated per architecture at -O1; thorough: "
            "13 fixed + 12 generated at -O0/-O1/-O2/-Os; x86_32/64, arml, armtl, aarch64l, mips32l/b, ppc32b, msp430) and hand-written templates (x86_16, "
            "mepl, mepb; plus 6 self-branching programs: x86_16/32/64 LOOP/LOOPNE/REP to their own address, x86_32 and arml "
            "tight loops to their own block head, run plainly and with a breakpoint on every self-branching instruction), each run on the python and gcc jitters under memory maps rw (2-3 input vectors), missing, "
            "read-only, split, split-ro, split-missing (+ro-split, split-aligned thorough) and once with two extra "
            "breakpoints on executed instructions; deterministic stratum identical at every seed plus a seeded "
            "supplement of generated functions and inputs. Non-trivial: >= 10 executed instructions including a "
            "store, or a fault; distinct by (arch, program, opt, map, inputs).")
    assumptions = ["only the 'python' and 'gcc' backends exist in this sandbox (llvmlite is absent): nothing is claimed "
                   "about the LLVM jitter",
                   "a program on which both backends raise a Python exception other than JitterException "
                   "(unsupported instruction / missing translation) is outside 'supported instructions' and dropped",
                   "programs are integer-only (no floating point, documented as unsupported by the python backend) "
                   "and do not use MeP REPEAT (implemented by the gcc code generator only)",
                   "log_mn is enabled on the python run only (to count executed instructions); it only prints",
                   "the two extra breakpoints are never put on a MIPS delay-slot instruction (splitting a block "
                   "there loses the branch in both backends: recorded under C21/C23)",
                   "the host-compiled expected value is recorded as a counter, it is not part of the verdict",
                   "a run is cut after 5000 runiter_once rounds ('step-limit' termination, a deterministic "
                   "observation that is compared like any other)"]
    level_text = ("differential execution of generated and fixed machine-code programs on both available backends in "
                  "separate worker processes, including faulting memory maps")
    technique = "differential testing of two implementations on generated programs (compiled-C corpus + templates)"

    def nshards(self, tier):
        return 48 if tier == "thorough" else 16

    # -- one program -------------------------------------------------------------------------
    def run_program(self, lab, res, prog, maps, rng=None, want_locate=True):
        arch = prog["arch"]
        first_trace = None
        for kind in maps:
            args, arr = inputs_for(arch, kind)
            if rng is not None and kind in ("rw2", "rw3"):
                m = (1 << (8 * wbytes(arch))) - 1
                args = [rng.getrandbits(32) & m for _ in range(3)]
                arr = [rng.getrandbits(32) & m for _ in range(8)]
            case = {"arch": arch, "tag": prog["tag"], "opt": prog.get("opt", ""), "code": prog["code"].hex(),
                    "base": prog["base"], "entry": prog["entry"], "args": args, "arr": arr, "map": kind,
                    "src": prog.get("src", "")}
            if kind in ("selfbp", "selfbp2"):
                # breakpoints on the instructions that branch to themselves / to their own block head: one hit per
                # iteration is expected from both backends
                regs = [jitlab.RET_REG[arch], jitlab.SELF_COUNTER[arch]]
                case["bps"] = [[name.upper(), prog["labels"][name], {"log_regs": regs}]
                               for name in ("self", "self2", "self3") if name in prog.get("labels", {})]
                if not case["bps"]:
                    continue
            if kind == "bp":
                if not first_trace:
                    continue
                cnt = collections.Counter(first_trace)
                if arch.startswith("mips"):
                    # never on a delay slot (the block split there loses the branch: C21/C23 finding): drop every
                    # address that is followed by a non-sequential transfer somewhere in the trace
                    for x, y in zip(first_trace, first_trace[1:]):
                        if y != x + 4:
                            cnt.pop(x, None)
                    cnt.pop(first_trace[-1], None)
                    if not cnt:
                        continue
                hot = max(sorted(cnt), key=lambda a: cnt[a])
                distinct = sorted(cnt)
                mid = distinct[len(distinct) // 2]
                regs = [jitlab.RET_REG[arch]]
                case["bps"] = [["H", hot, {"log_regs": regs}], ["M", mid, {"log_regs": regs}]]
                if hot == mid:
                    case["bps"] = case["bps"][:1]
            fails, info = judge(lab, case, res, want_locate)
            if "dropped" in info:
                res.dropped[info["dropped"]] += 1
                res.evaluations += 1
                if info["dropped"].startswith("unsupported"):
                    break        # the other maps would hit the same unsupported instruction
                continue
            if kind == "rw" and info.get("trace"):
                first_trace = info["trace"]
            key = (arch, prog["tag"], prog.get("opt", ""), kind, tuple(args), tuple(arr)) if info["nt"] else None
            res.case(nontrivial_key=key, sample={"arch": arch, "program": prog["tag"], "map": kind,
                                                 "instructions": info.get("n_instr")}
                     if info["nt"] and kind in ("split", "bp", "selfbp") else None)
            res.counters["arch:" + arch] += 1
            res.counters["map:" + kind] += 1
            if kind in ("selfbp", "selfbp2") and "obs" in info and "events" in info["obs"]["python"]:
                res.counters["self-branch-breakpoint-hits(python)"] += sum(
                    1 for e in info["obs"]["python"]["events"] if e[0] == "bp" and e[1] != "S")
            if info.get("fault"):
                res.counters["faulting-runs"] += 1
            res.counters["instructions-executed(python)"] += info.get("n_instr", 0)
            for b, d in fails:
                res.fail(b, d + " [program %s %s]" % (prog["tag"], prog.get("opt", "")), case)
            # bonus oracle
            nat = prog.get("native")
            if nat and kind in ("rw", "rw2", "rw3", "bp") and not fails and "obs" in info:
                py = info["obs"]["python"]
                if "final" in py and term_tuple(py)[0] == "ret":
                    t = ccorpus.TARGETS[arch]
                    exp_r, exp_arr = nat[0].call(nat[1], args[0], args[1], args[2], arr)
                    m = (1 << t["wbits"]) - 1
                    got_r = py["final"]["regs"][jitlab.RET_REG[arch]] & m
                    arr_addr, _ = data_layout(arch, kind)
                    raw = jitlab.mem_bytes(py["final"], arr_addr, 8 * t["wbits"] // 8)
                    got_arr = ccorpus.unpack_words(raw, t["wbits"], t["be"]) if raw else None
                    okv = got_r == exp_r and got_arr == exp_arr
                    res.counters["native-oracle:%s" % ("match" if okv else "mismatch:" + arch)] += 1
                    if not okv and len(res.notes) < 6:
                        res.notes.append("native expected value differs (both backends agree; semantics, not C20): "
                                         "%s %s %s args=%r" % (arch, prog["tag"], prog.get("opt", ""), args))

    # -- shard -------------------------------------------------------------------------------
    def run_shard(self, tier, seed, shard, nshards):
        res = ShardResult()
        if not jitlab.shard_enabled(shard):
            res.dropped["shard-not-selected(VERIF_ONLY_SHARDS)"] += 1
            res.exhaustive["all-shards-run"] = False
            return res
        maps = MAPS_THOROUGH if tier == "thorough" else MAPS_QUICK
        units, ngen = plan_units(tier)
        mine = [u for i, u in enumerate(units) if i % nshards == shard]
        nrand = 6 if tier == "thorough" else 1
        rng = random.Random(seed)
        with jitlab.JitLab(time_limit=600 if tier == "thorough" else 300) as lab:
            wd = lab.workdir()
            # deterministic stratum, grouped per (arch, opt) so that one clang run serves the group
            groups = collections.OrderedDict()
            for u in mine:
                groups.setdefault((u[0], u[1], u[2]), []).append(u[3])
            for (kind, arch, opt), ks in groups.items():
                if kind in ("t", "s"):
                    progs = jitlab.template_programs(arch) if kind == "t" else jitlab.self_branch_programs(arch)
                    pmaps = maps
                    if kind == "s":
                        pmaps = MAPS_SELF_THOROUGH if tier == "thorough" else MAPS_SELF_QUICK
                    for k in ks:
                        p = progs[k]
                        if p["code"] is None:
                            res.dropped["template-" + p["reason"].split(":")[0]] += 1
                            continue
                        p = dict(p, arch=arch, opt="")
                        self.run_program(lab, res, p, pmaps)
                    continue
                funcs_all = det_functions(arch, ngen)
                funcs = [funcs_all[k] for k in ks]
                self.run_c_group(lab, res, wd, arch, opt, funcs, maps, "d%d" % shard, None)
            # seeded supplement
            if tier != "thorough" and shard % 2:
                nrand = 0            # quick tier: one seeded program on every other shard
            for r in range(nrand):
                arch = ARCHS_C[(shard + r * 5 + rng.randrange(len(ARCHS_C))) % len(ARCHS_C)]
                opt = rng.choice(["-O0", "-O1", "-O2", "-Os"])
                funcs = ccorpus.gen_functions(rng.getrandbits(30) + 1, 1, arch)
                self.run_c_group(lab, res, wd, arch, opt, funcs, maps, "r%d_%d" % (shard, r), rng)
            res.counters["worker-processes"] += lab.stats["workers"]
            if lab.stats["timeout"]:
                res.dropped["worker-time-limit"] += lab.stats["timeout"]
        return res

    def run_c_group(self, lab, res, wd, arch, opt, funcs, maps, tag, rng):
        t = ccorpus.TARGETS[arch]
        lay = jitlab.layout(arch)
        out, err = ccorpus.compile_batch(funcs, arch, opt, wd, lay["code"], tag=tag)
        try:
            nat = ccorpus.Native(funcs, t["wbits"], wd, tag=tag + arch + opt.strip("-"))
        except Exception:
            nat = None
        for k, r in enumerate(out):
            if r["code"] is None:
                res.dropped["compile:" + r["reason"]] += 1
                continue
            src = funcs[k][1]
            subword = "int8_t" in src or "int16_t" in src
            prog = dict(arch=arch, opt=opt, tag=r["tag"], code=r["code"], base=lay["code"], entry=lay["code"],
                        src=src.replace("{f}", "f"))
            if nat is not None and not (t["be"] and subword):
                prog["native"] = (nat, k)
            self.run_program(lab, res, prog, maps, rng)

    # -- replay / shrink ---------------------------------------------------------------------
    def replay(self, case):
        with jitlab.shared() as lab:
            fails, info = judge(lab, case)
        if not fails:
            return None
        want = case.get("_bucket")
        for b, d in fails:
            if want is None or b == want:
                return Failure(b, d, case)
        return Failure(fails[0][0], fails[0][1], case)

    def shrink(self, failure, tier):
        """Inputs towards zero while the bucket is kept (programs themselves are compiler output)."""
        case = dict(failure.case)
        best = failure
        with jitlab.shared() as lab:
            for field, val in (("arr", [0] * 8), ("args", [0, 0, 0]), ("bps", [])):
                if case.get(field) in (val, None):
                    continue
                cand = dict(case)
                cand[field] = val
                fails, _ = judge(lab, cand)
                for b, d in fails:
                    if b == failure.bucket:
                        case = cand
                        best = Failure(b, d, cand)
                        break
        return best


CHECK = C20()
