"""C05 — the z3 translation agrees with miasm's own evaluation.

The z3 term of TranslatorZ3(endianness) is evaluated concretely: identifiers substituted by BitVecVal, each memory
array mem<N> replaced by Store(...Store(K(0), a_i, b_i)...) over exactly the cells the reference evaluator read,
then z3.simplify, which must give a numeral equal to miasm's evaluation (expr_simp_explicit after substitution,
memory reads resolved innermost-first in the translator's byte order), kept only where S agrees.
"""
from vlib.runner import Check, ShardResult, Failure
from vlib import simplab, exprgen, transl
from vlib.refeval import S, Env

Z3_CFG = dict(nary=transl.NARY,
              binw=['-', '/', '%', '<<', '>>', 'a>>', '<<<', '>>>', 'udiv', 'umod', 'sdiv', 'smod'],
              un=['-', 'cntleadzeros', 'cnttrailzeros'], cmp=['==', '<u', '<s', '<=u', '<=s'], parity=True, ext=True,
              mem=True, maxw=128,
              okw=lambda op, w: (w % 8 == 0 or w in (1, 7, 12, 33)) and w <= 128 if op == 'mem' else True)
NTUPLES = 8


class Z3Harness(transl.Harness):
    name = "z3"
    env_cls = Env

    def __init__(self):
        self.memo = {}

    def in_domain(self, e):
        for x in simplab.subexprs(e):
            if x.__class__.__name__ == 'ExprOp' and x.op == 'parity' and x.args[0].size < 8:
                return "parity of an operand narrower than 8 bits (no caller builds it; out of domain)"
        return None

    def translate(self, e, env):
        key = (e, bool(env.big_endian))
        if key in self.memo:
            return self.memo[key]
        if len(self.memo) > 200:
            self.memo.clear()
        from miasm.ir.translators.z3_ir import TranslatorZ3
        try:
            r = ("ok", TranslatorZ3(endianness=">" if env.big_endian else "<").from_expr(e))
        except NotImplementedError as ex:
            r = ("reject", str(ex))
        except Exception as ex:
            r = ("exc", type(ex).__name__, repr(ex)[:300])
        self.memo[key] = r
        return r

    def run(self, term, e, env):
        import z3
        envc = transl.clone(env)
        try:
            S(e, envc)
        except Exception:
            return ("drop", "reference evaluator undefined")
        subs = []
        for (n, s) in simplab.free_ids(e):
            subs.append((z3.BitVec(n, s), z3.BitVecVal(envc.read_id(n, s), s)))
        cells = {}
        for (pw, addr) in envc.touched:
            cells.setdefault(pw, {})[addr] = None
        for pw in sorted({x.ptr.size for x in simplab.subexprs(e) if x.__class__.__name__ == 'ExprMem'}):
            arr = z3.K(z3.BitVecSort(pw), z3.BitVecVal(0, 8))
            reader = transl.clone(env)
            for addr in sorted(cells.get(pw, {})):
                arr = z3.Store(arr, z3.BitVecVal(addr, pw), z3.BitVecVal(reader.read_byte(pw, addr), 8))
            subs.append((z3.Array("mem%d" % pw, z3.BitVecSort(pw), z3.BitVecSort(8)), arr))
        try:
            if not z3.is_bv(term) or term.size() != e.size:
                return ("fail", "sort", "the z3 term has sort %s, expected a bit-vector of %d bits" % (term.sort(), e.size))
            r = z3.simplify(z3.substitute(term, *subs)) if subs else z3.simplify(term)
        except z3.Z3Exception as ex:
            return ("fail", "exception:Z3Exception", "evaluating the term raised %r" % (ex,))
        if not z3.is_bv_value(r):
            return ("fail", "not-a-numeral", "the substituted term simplifies to %s" % str(r)[:300])
        return ("value", r.as_long())

    def opkey(self, sub, env):
        k = simplab._kind(sub)
        if k == "mem":
            k += ":big-endian" if env.big_endian else ":little-endian"
            if sub.size % 8:
                k += ":unaligned-size"
        return k

    def envs(self, e, n):
        out = transl.tuples(e, n, env_cls=Env)
        if simplab.has_mem(e):
            out += transl.tuples(e, max(3, n // 2), salt="be", env_cls=Env, big_endian=True)
        return out


H = Z3Harness()


def strategy():
    from hypothesis import strategies as st

    @st.composite
    def case(draw):
        if draw(st.integers(0, 11)) == 0:
            return draw(exprgen.free_expr(draw(exprgen.widths(1, 128)), 2, {"maxw": 128}))
        return draw(transl.sized_expr(Z3_CFG, depth=3))
    return case()


class C05(Check):
    pid = "C05"
    needs_z3 = True
    rule = ("Hypothesis: expression trees over the operators TranslatorZ3 accepts (+ * ^ & | - / % << >> a>> <<< >>> "
            "udiv umod sdiv smod unary - cntleadzeros cnttrailzeros parity == <u <s <=u <=s zeroExt signExt slices "
            "compositions conditionals memory reads of 1..128 bits over 8/16/32/64-bit pointers), widths 1..128, "
            "depth<=3 (8% over every operator to count rejections); 8 assignments per expression (0, 1, -1, INT_MIN, "
            "INT_MAX, INT_MIN/-1 mixes, boundary/small/single-bit/random picks), plus 4 big-endian ones when the "
            "expression reads memory. Non-trivial: >= 2 operator nodes or a memory read; distinct by expression text.")
    assumptions = ["memory arrays are named mem<pointer width> (Z3Mem docstring); cells not read by the reference "
                   "evaluator are 0 in the z3 evaluation",
                   "a read whose size is not a multiple of 8 takes the low bits of the enclosing bytes",
                   "assignments on which miasm's evaluation is not a constant, is undefined (division by zero) or "
                   "disagrees with the reference evaluator are dropped and counted",
                   "parity of operands narrower than 8 bits is out of domain"]
    level_text = ("randomized differential testing of concrete evaluations of the z3 terms against miasm's constant "
                  "evaluation, both byte orders")
    technique = "property-based differential testing (Hypothesis generators, z3 substitute+simplify)"

    def nshards(self, tier):
        return 32 if tier == "thorough" else 16

    def run_shard(self, tier, seed, shard, nshards):
        from vlib import hyp
        res = ShardResult()
        nex = 2500 if tier == "thorough" else 600
        cnt = [0]

        def one(e):
            cnt[0] += 1
            if cnt[0] % 2000 == 0:
                transl.explicit_simp().cache.clear()
            fails = H.judge(e, NTUPLES, res)
            for k in transl.op_kinds(e):
                res.counters["op:" + k] += 1
            res.counters["width:" + transl.wclass(e.size)] += 1
            nt = transl.count_ops(e) >= 2 or simplab.has_mem(e)
            res.case(nontrivial_key=repr(e) if nt else None,
                     sample={"expr": str(e)} if nt and cnt[0] % 97 == 0 else None)
            for b, d, env in fails:
                res.fail(b, d, {"expr": simplab.ser(e), "env": transl.env_to_case(env)})
        hyp.survey(strategy(), nex, seed, one)
        return res

    def _judge_case(self, case):
        e = simplab.deser(case["expr"])
        return H.judge_case(e, transl.env_from_case(case["env"], Env))

    def replay(self, case):
        fails = self._judge_case(case)
        if not fails:
            return None
        want = case.get("_bucket")
        for b, d in fails:
            if want is None or b == want:
                return Failure(b, d, case)
        return Failure(fails[0][0], fails[0][1], case)

    def shrink(self, failure, tier):
        case = failure.case
        e = simplab.deser(case["expr"])

        def pred(x):
            return any(b == failure.bucket for b, _ in self._judge_case(dict(case, expr=simplab.ser(x))))
        small = simplab.shrink_expr(e, pred, budget=300 if tier == "quick" else 1500)
        c = dict(case, expr=simplab.ser(small))
        for b, d in self._judge_case(c):
            if b == failure.bucket:
                return Failure(b, d, c)
        return failure


CHECK = C05()
