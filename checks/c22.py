"""C22 — modified code is re-translated before it runs again.

Histories on x86_32 and arml template programs (assembled with miasm): a loop executes a `MOV reg, imm` instruction P
three times; between two executions P's first / middle / last byte (or the whole word) is overwritten either by a
guest store (located after P in the same translated block, immediately before P in the same block, or in another
block) or by the host through vm.set_mem / vm.set_u8/16/32 while the run is stopped on a breakpoint (at a block
start or in the middle of the block holding P).  Reference = the same history on the same backend in an
"always retranslate" configuration (jit_maxline = 1, max_exec_per_call = 1, translation cache cleared before every
instruction).  Judged: final registers and memory, and the registers logged by a breakpoint after every execution
of P.
Two further deterministic strata: (1) x86_32 writers that are multi-irblock instructions — REP STOSB/STOSD/MOVSB/MOVSD
with counts 1..5 overwriting P's first / middle / last byte, its immediate or the whole instruction, placed after P in
the same block, immediately before P, or in another block, with no other memory access between the write and the next
execution of P; (2) "host-tail": P is the branch ending a contiguous range of translated code (the bytes after it are
not translated yet); the host overwrites P's first or last byte while stopped on a breakpoint, directly after an
invalidation step (none / add_breakpoint on a translated block start / set_breakpoint on a translated block start /
add_breakpoint in the middle of a translated block / an EXCEPT_CODE_AUTOMOD event handled one iteration earlier after
which nothing new was translated).
"""
import random

from vlib.runner import Check, ShardResult, Failure
from vlib import jitlab
from checks import c20

STEP_LIMIT = 5000

X86 = {
    # guest store located after P in the same translated block; executes every iteration
    "same-block-after": """
main:
    MOV ECX, 3
    XOR EBX, EBX
    XOR EDX, EDX
    XOR ESI, ESI
    XOR EDI, EDI
loop:
    MOV EAX, 0x11223344
    ADD EBX, EAX
    {store}
after:
    DEC ECX
    JNZ loop
    RET
""",
    # guest store immediately before P in the same translated block (P entered once through a jump first)
    "next-instruction": """
main:
    MOV ECX, 3
    XOR EBX, EBX
    XOR EDX, EDX
    XOR ESI, ESI
    XOR EDI, EDI
    JMP patched
loop:
    {store}
patched:
    MOV EAX, 0x11223344
    ADD EBX, EAX
after:
    DEC ECX
    JNZ loop
    RET
""",
    # guest store in another block, executed in the second iteration only
    "other-block": """
main:
    MOV ECX, 3
    XOR EBX, EBX
    XOR EDX, EDX
    XOR ESI, ESI
    XOR EDI, EDI
loop:
    MOV EAX, 0x11223344
    ADD EBX, EAX
after:
    CMP ECX, 2
    JNZ skip
    {store}
skip:
    DEC ECX
    JNZ loop
    RET
""",
    # no guest store: the host writes while the run is stopped
    "host": """
main:
    MOV ECX, 3
    XOR EBX, EBX
    XOR EDX, EDX
    XOR ESI, ESI
    XOR EDI, EDI
loop:
    INC EDI
patched:
    MOV EAX, 0x11223344
    ADD EBX, EAX
after:
    DEC ECX
    JNZ loop
    RET
""",
}

ARM = {
    "same-block-after": """
main:
    MOV R2, 3
    MOV R1, 0
    MOV R5, 0
loop:
    MOV R0, 0x11
    ADD R1, R1, R0
    {store}
after:
    SUBS R2, R2, 1
    BNE loop
    BX LR
""",
    "next-instruction": """
main:
    MOV R2, 3
    MOV R1, 0
    MOV R5, 0
    B patched
loop:
    {store}
patched:
    MOV R0, 0x11
    ADD R1, R1, R0
after:
    SUBS R2, R2, 1
    BNE loop
    BX LR
""",
    "other-block": """
main:
    MOV R2, 3
    MOV R1, 0
    MOV R5, 0
loop:
    MOV R0, 0x11
    ADD R1, R1, R0
after:
    CMP R2, 2
    BNE skip
    {store}
skip:
    SUBS R2, R2, 1
    BNE loop
    BX LR
""",
    "host": """
main:
    MOV R2, 3
    MOV R1, 0
    MOV R5, 0
loop:
    ADD R6, R6, 1
patched:
    MOV R0, 0x11
    ADD R1, R1, R0
after:
    SUBS R2, R2, 1
    BNE loop
    BX LR
""",
}

# ---- writers that are multi-irblock instructions (x86 REP STOS / REP MOVS) -----------------------------------------
# EBP = address of the first overwritten byte (preset, never modified), EDX = loop counter, ECX/ESI/EDI belong to the
# string instruction.  No memory access between the REP instruction and the next execution of P.
X86_REP = {
    "rep-same-block-after": """
main:
    MOV EDX, 3
    XOR EBX, EBX
    CLD
loop:
    MOV EAX, 0x11223344
    ADD EBX, EAX
    {store}
after:
    DEC EDX
    JNZ loop
    RET
""",
    "rep-next-instruction": """
main:
    MOV EDX, 3
    XOR EBX, EBX
    CLD
    JMP patched
loop:
    {store}
patched:
    MOV EAX, 0x11223344
    ADD EBX, EAX
after:
    DEC EDX
    JNZ loop
    RET
""",
    "rep-other-block": """
main:
    MOV EDX, 3
    XOR EBX, EBX
    CLD
loop:
    MOV EAX, 0x11223344
    ADD EBX, EAX
after:
    CMP EDX, 2
    JNZ skip
    {store}
skip:
    DEC EDX
    JNZ loop
    RET
""",
}
REP_UNIT = {"STOSB": 1, "STOSD": 4, "MOVSB": 1, "MOVSD": 4}
# (instruction, byte offset in P, count, value): every result is a valid `MOV EAX|EBX, imm32`
REP_PATCHES = [("STOSB", 4, 1, 0x7F), ("STOSB", 1, 4, 0x22), ("STOSB", 0, 1, 0xBB), ("STOSB", 0, 5, 0xBB),
               ("STOSB", 2, 1, 0x00), ("STOSB", 1, 3, 0x5A), ("STOSB", 2, 3, 0xC3),
               ("MOVSB", 2, 1, 0x99), ("MOVSB", 4, 1, 0x01), ("MOVSB", 0, 1, 0xBB), ("MOVSB", 1, 4, 0x6B),
               ("MOVSB", 0, 5, 0xBB), ("MOVSB", 3, 2, 0xE7),
               ("STOSD", 1, 1, 0xCAFEBABE), ("STOSD", 0, 1, 0x332211BB),
               ("MOVSD", 1, 1, 0x0BADF00D), ("MOVSD", 0, 1, 0x776655BB)]
# quick tier: (variant, index in REP_PATCHES); first / middle / last byte and whole immediate, every placement and
# every string instruction are present
REP_QUICK = [("rep-next-instruction", 1), ("rep-next-instruction", 0), ("rep-other-block", 2),
             ("rep-other-block", 7), ("rep-same-block-after", 13), ("rep-next-instruction", 15)]

# ---- host write to the last instruction of a translated range, after an invalidation step --------------------------
# P = the unconditional branch ending the loop body; the code after it (`fall`) is never translated before the write,
# so P's last byte is the last byte of a contiguous range of translated code.  Patching P's displacement byte sends it
# to t2, patching its opcode / condition byte makes it a not-taken conditional branch (falls through to `fall`).
# The guest store executes in the second iteration only; it hits the (dead) first byte of `main` in the "automod"
# histories (handled EXCEPT_CODE_AUTOMOD, nothing new is translated afterwards) and the stack page otherwise.
X86_TAIL = """
main:
    MOV ECX, 3
mid:
    XOR EBX, EBX
    XOR EDX, EDX
    XOR ESI, ESI
    XOR EDI, EDI
loop:
    INC EDI
    CMP ECX, 2
    JNZ skip
    MOV BYTE PTR [EBP], 0x90
skip:
    ADD EBX, 5
patched:
    JMP t1
fall:
    ADD EDX, 7
    JMP t1
t2:
    INC ESI
t1:
    DEC ECX
    JNZ loop
    RET
"""
ARM_TAIL = """
main:
    MOV R2, 3
mid:
    MOV R1, 0
    MOV R5, 0
    MOV R6, 0
loop:
    ADD R6, R6, 1
    CMP R2, 2
    BNE skip
    STRB R3, [R4]
skip:
    ADD R1, R1, 5
patched:
    B t1
fall:
    ADD R0, R0, 7
    B t1
t2:
    ADD R5, R5, 1
t1:
    SUBS R2, R2, 1
    BNE loop
    BX LR
"""
INVALS = ["none", "add_bp", "set_bp", "add_bp_mid", "automod"]

# patch descriptions: (byte offset in P, width in bytes, value) — every value gives a valid instruction that does not
# touch the loop counter
X86_PATCHES = [(0, 1, 0xBB), (0, 1, 0xBA), (0, 1, 0xBE), (1, 1, 0x99), (2, 1, 0x00), (3, 1, 0xFF), (4, 1, 0x7F),
               (1, 2, 0xBEEF), (3, 2, 0x1234), (1, 4, 0xCAFEBABE)]
ARM_PATCHES = [(0, 1, 0x7F), (0, 1, 0x00), (1, 1, 0x50), (2, 1, 0xE0), (3, 1, 0x13), (0, 2, 0x5042),
               (0, 4, 0xE3A05099), (0, 4, 0xE2811003)]
LOG_REGS = {"x86_32": ["RAX", "RBX", "RDX", "RSI", "RDI"], "arml": ["R0", "R1", "R5"]}


def store_text(arch, width, value):
    if arch == "x86_32":
        return "MOV %s PTR [EBP], 0x%X" % ({1: "BYTE", 2: "WORD", 4: "DWORD"}[width], value)
    return {1: "STRB R3, [R4]", 2: "STRH R3, [R4]", 4: "STR R3, [R4]"}[width]


_asm_cache = {}


REP_PARAMS = 0x20       # offset in the data page of the count and fill-value words read by the rep-* programs


def rep_store_text(insn):
    """count (and fill value) come from the data page, read *before* the REP instruction, so that one program per
    (placement, instruction) serves every patch"""
    d = jitlab.layout("x86_32")["data"]
    lines = ["MOV EDI, EBP", "MOV ECX, DWORD PTR [0x%X]" % (d + REP_PARAMS)]
    if insn.startswith("STOS"):
        lines.append("MOV EAX, DWORD PTR [0x%X]" % (d + REP_PARAMS + 4))
    else:
        lines.append("MOV ESI, 0x%X" % d)
    lines.append("REP " + insn)
    return "\n    ".join(lines)


def rep_bytes(hist):
    """bytes written by the REP instruction of a rep-* history"""
    unit = REP_UNIT[hist["insn"]]
    return jitlab.pack(hist["value"], unit, False) * hist["count"]


def build(arch, variant, width, value, hist=None):
    key = (arch, variant, width, value if arch == "x86_32" else 0)
    if variant.startswith("rep-"):
        key = (arch, variant, hist["insn"])
    elif variant == "host-tail":
        key = (arch, variant)
    if key not in _asm_cache:
        if variant.startswith("rep-"):
            text = X86_REP[variant].replace("{store}", rep_store_text(hist["insn"]))
        elif variant == "host-tail":
            text = X86_TAIL if arch == "x86_32" else ARM_TAIL
        else:
            text = (X86 if arch == "x86_32" else ARM)[variant].replace("{store}", store_text(arch, width, value))
        lay = jitlab.layout(arch)
        try:
            code, labels = jitlab.assemble(arch, text, lay["code"])
            labels.setdefault("patched", labels["loop"])     # P is the first instruction of the loop there
            _asm_cache[key] = (code, labels)
        except Exception as e:
            _asm_cache[key] = (None, "asm:%s" % type(e).__name__)
    return _asm_cache[key]


def make_scenario(hist, backend, retranslate):
    """hist: dict(arch, variant, off, width, value, writer, stop_at, hit) -> scenario"""
    arch = hist["arch"]
    code, labels = build(arch, hist["variant"], hist["width"], hist["value"], hist)
    if code is None:
        return None
    lay = jitlab.layout(arch)
    target = labels["patched"] + hist["off"]
    if arch == "x86_32":
        regs_extra = {"EBP": target}
    else:
        regs_extra = {"R4": target, "R3": hist["value"]}
    dpages = []
    if hist["variant"].startswith("rep-"):
        fill = hist["value"] if REP_UNIT[hist["insn"]] == 4 else hist["value"] * 0x01010101
        dpages = [[lay["data"], 3, rep_bytes(hist).ljust(REP_PARAMS, b"\xcc") + jitlab.pack(hist["count"], 4, False)
                   + jitlab.pack(fill, 4, False), "data"]]
    if hist["variant"] == "host-tail":
        # the guest store: dead code of `main` (handled automod event) or the bottom of the stack page
        dead = labels["main"] if hist["inval"] == "automod" else lay["stack"] + 0x10
        regs_extra = {"EBP": dead} if arch == "x86_32" else {"R4": dead, "R3": 0x90}
    scn = jitlab.call_scenario(arch, code, [], dpages, code_addr=labels["__base__"], entry=labels["main"])
    scn["regs"].update(regs_extra)
    scn["step_limit"] = STEP_LIMIT
    log_at = labels["t1"] if hist["variant"] == "host-tail" else labels["after"]
    script = [scn["script"][0], ["bp", "L", log_at, {"log_regs": LOG_REGS[arch]}]]
    if hist["variant"] == "host-tail":
        script.append(["bp", "H", labels[hist["stop_at"]], {"ret_at": {str(hist["hit"]): "false"}}])
        script.append(["init_run", labels["main"]])
        script.append(["cont"])
        # invalidation step, immediately followed by the host write (nothing is translated in between)
        if hist["inval"] == "add_bp":
            script.append(["bp", "X", labels["main"], {}])
        elif hist["inval"] == "set_bp":
            script.append(["set_bp", "X", labels["skip"], {}])
        elif hist["inval"] == "add_bp_mid":
            script.append(["bp", "X", labels["mid"], {}])
        data = jitlab.pack(hist["value"], hist["width"], False)
        if hist["writer"] == "set_mem":
            script.append(["set_mem", target, data.hex()])
        else:
            script.append(["set_u", 8 * hist["width"], target, hist["value"]])
        script.append(["cont"])
    elif hist["variant"] == "host":
        stop = labels[hist["stop_at"]]
        script.append(["bp", "H", stop, {"ret_at": {str(hist["hit"]): "false"}}])
        script.append(["init_run", labels["main"]])
        script.append(["cont"])
        data = jitlab.pack(hist["value"], hist["width"], False)
        if hist["writer"] == "set_mem":
            script.append(["set_mem", target, data.hex()])
        else:
            script.append(["set_u", 8 * hist["width"], target, hist["value"]])
        script.append(["cont"])
    else:
        script.append(["run", labels["main"]])
    scn["script"] = script
    if retranslate:
        scn["exec_cb"] = "retranslate"
        scn["options"] = {"jit_maxline": 1, "max_exec_per_call": 1}
    return scn


def summary(obs):
    ev = []
    for e in obs["events"]:
        if e[0] == "bp":
            ev.append(e[:5])
        elif e[0] == "cont":
            ev.append(e[:5])
    return ev


def judge(lab, hist, backend):
    """-> None inconclusive | "ok" | "dropped:<reason>" | (bucket, detail)"""
    sr = make_scenario(hist, backend, True)
    if sr is None:
        return "dropped:assembler"
    ref = lab.run(sr, backend)
    got = lab.run(make_scenario(hist, backend, False), backend)
    for o in (ref, got):
        if "setup_error" in o:
            raise RuntimeError("jitlab setup error: %s\n%s" % (o["setup_error"], o.get("tb")))
        if "timeout" in o:
            return None
    if "died" in ref:
        return "dropped:reference-died"
    rterm = c20.term_tuple(ref)
    if rterm[0] == "pyexc":
        return "dropped:reference-unsupported:%s" % rterm[1]
    wr = hist["writer"]
    if hist["variant"] == "host":
        wr += "@" + hist["stop_at"]
    elif hist["variant"] == "host-tail":
        wr += "@%s-after-%s" % (hist["stop_at"], hist["inval"])
    elif hist["variant"].startswith("rep-"):
        wr += "-rep-" + hist["insn"].lower()
    pre = "%s|%s|%s|%s" % (hist["arch"], backend, hist["variant"], wr)
    what = "byte%d/%d" % (hist["off"], hist["width"])
    desc = "history %r" % (hist,)
    if "died" in got:
        return (pre + "|worker-died", "worker died (%r); %s" % (got["died"], desc))
    er, eg = summary(ref), summary(got)
    if er != eg:
        i = 0
        while i < min(len(er), len(eg)) and er[i] == eg[i]:
            i += 1
        return (pre + "|stale-or-wrong-execution",
                "event %d differs (%s patched): always-retranslate reference %r, got %r; %s"
                % (i, what, er[i] if i < len(er) else None, eg[i] if i < len(eg) else None, desc))
    d = jitlab.diff_snap(ref["final"], got["final"])
    if d:
        return (pre + "|final-state", "final state differs from the always-retranslate reference (%s patched): %s; %s"
                % (what, "; ".join(d[:5]), desc))
    return "ok"


def histories(arch):
    """Deterministic enumeration."""
    patches = X86_PATCHES if arch == "x86_32" else ARM_PATCHES
    out = []
    for off, width, value in patches:
        for variant in ("same-block-after", "next-instruction", "other-block"):
            out.append(dict(arch=arch, variant=variant, off=off, width=width, value=value, writer="guest",
                            stop_at="", hit=0))
        for stop_at in ("loop", "patched", "after"):
            for writer in ("set_mem", "set_u"):
                out.append(dict(arch=arch, variant="host", off=off, width=width, value=value, writer=writer,
                                stop_at=stop_at, hit=2))
    return out


def rep_histories(tier):
    """x86_32: P overwritten by a REP STOS / REP MOVS (multi-irblock writer).  Deterministic."""
    out = []
    if tier == "thorough":
        sel = [(v, i) for i in range(len(REP_PATCHES)) for v in sorted(X86_REP)]
    else:
        sel = REP_QUICK
    for variant, i in sel:
        insn, off, count, value = REP_PATCHES[i]
        out.append(dict(arch="x86_32", variant=variant, off=off, width=REP_UNIT[insn] * count, value=value,
                        writer="guest", stop_at="", hit=0, insn=insn, count=count))
    return out


def tail_patches(arch):
    """-> [(off, value)] for the branch P of the host-tail template: [first byte, last byte], or None when the
    assembler's encoding / layout is not the expected one.  Whatever order the assembler gives to the blocks, the
    instruction placed right after P must be t2 or fall (neither is executed before the host write)."""
    code, labels = build(arch, "host-tail", 1, 0)
    if code is None:
        return None
    pa = labels["patched"]
    p = pa - labels["__base__"]
    if arch == "x86_32":
        # EB rel8: first byte -> 74 (JZ, not taken: ZF is clear after ADD EBX, 5), last byte -> rel8 of t2 / fall
        if code[p] != 0xEB or pa + 2 not in (labels["t2"], labels["fall"]):
            return None
        for name in ("t2", "fall"):
            rel = labels[name] - (pa + 2)
            if -128 <= rel <= 127 and (rel & 0xFF) != code[p + 1]:
                return [(0, 0x74), (1, rel & 0xFF)]
        return None
    # arml `B t1` = imm24 (3 low bytes), EA: first byte -> t2 / fall when only the low byte of imm24 changes,
    # last byte -> 0A (BEQ, not taken: R2 != 2)
    if code[p + 3] != 0xEA or pa + 4 not in (labels["t2"], labels["fall"]):
        return None
    for name in ("t2", "fall"):
        imm = ((labels[name] - (pa + 8)) >> 2) & 0xFFFFFF
        if imm >> 8 == code[p + 1] | code[p + 2] << 8 and (imm & 0xFF) != code[p]:
            return [(0, imm & 0xFF), (3, 0x0A)]
    return None


def tail_histories(tier):
    """Host write to the first / last byte of the last instruction of a translated range, directly after an
    invalidation step.  Deterministic."""
    out = []
    for arch in ("x86_32", "arml"):
        pt = tail_patches(arch)
        if pt is None:
            continue
        first, last = pt
        if tier == "thorough":
            sel = [(p, inval, writer, stop_at) for p in (last, first) for inval in INVALS
                   for writer in ("set_mem", "set_u") for stop_at in ("loop", "patched")]
        elif arch == "x86_32":
            sel = [(last, inval, "set_mem", "loop") for inval in INVALS]
            sel += [(last, "add_bp", "set_u", "loop"), (last, "automod", "set_u", "patched"),
                    (first, "add_bp", "set_mem", "loop"), (first, "automod", "set_mem", "loop")]
        else:
            sel = [(last, "add_bp", "set_mem", "loop"), (last, "automod", "set_mem", "loop"),
                   (first, "set_bp", "set_u", "loop")]
        for (off, value), inval, writer, stop_at in sel:
            out.append(dict(arch=arch, variant="host-tail", off=off, width=1, value=value, writer=writer,
                            stop_at=stop_at, hit=3, inval=inval))
    return out


class C22(Check):
    pid = "C22"
    needs_build = True
    rule = ("x86_32 and arml loop templates executing a `MOV reg, imm` instruction P three times; P's first / middle "
            "/ last byte, half or whole word is overwritten between executions by a guest store (after P in the "
            "same block, immediately before P in the same block, in another block) or by the host (vm.set_mem, "
            "vm.set_u8/16/32) while stopped on a breakpoint at the loop head, on P, or right after P; fixed patch "
            "values (10 for x86_32, 8 for arml; every other one in the quick tier, all in thorough), plus seeded random immediates "
            "and stop iterations; plus x86_32 REP STOSB/STOSD/MOVSB/MOVSD writers (multi-irblock instructions; counts "
            "1-5 on P's first / middle / last byte, immediate, whole instruction; 3 placements; 6 histories quick, 51 "
            "thorough) and host writes to the first / last byte of the branch ending a translated range directly after "
            "an invalidation step (none, add_breakpoint / set_breakpoint on a translated block start, add_breakpoint "
            "inside a translated block, handled automod event; x86_32 and arml; 12 histories quick, 80 thorough); both backends; reference = same history with the translation cache cleared "
            "before every instruction. Non-trivial: P executes before and after the write (every history, by "
            "construction); distinct by (history, backend).")
    assumptions = ["python and gcc backends only (llvmlite absent)",
                   "the always-retranslate configuration (jit_maxline=1, max_exec_per_call=1, clear_jitted_blocks() "
                   "from exec_cb before every instruction) of the same backend is trusted as the reference",
                   "code pages are mapped read+write; patches always yield a valid instruction that leaves the "
                   "loop counter alone"]
    level_text = ("history-based differential testing of code-write tracking and invalidation against an "
                  "always-retranslate run, deterministic enumeration plus random immediates")
    technique = "differential testing against a cache-free reference over enumerated self-modification histories"
    all_exhaustive = False

    def nshards(self, tier):
        return 16

    def run_shard(self, tier, seed, shard, nshards):
        res = ShardResult()
        if not jitlab.shard_enabled(shard):
            res.dropped["shard-not-selected(VERIF_ONLY_SHARDS)"] += 1
            res.exhaustive["all-shards-run"] = False
            return res
        rng = random.Random(seed)
        hs = []
        for arch in ("x86_32", "arml"):
            hs += histories(arch)
        # histories sharing a program (architecture, patch) go to the same shard; the quick tier takes the patches
        # of even index (first / middle / last byte and a wide patch are all still present)
        groups = sorted(set((h["arch"], h["off"], h["width"], h["value"]) for h in hs))
        if tier != "thorough":
            groups = groups[::2]
        owner = {g: i % nshards for i, g in enumerate(groups)}
        mine = [h for h in hs if owner.get((h["arch"], h["off"], h["width"], h["value"])) == shard]
        res.exhaustive["fixed-patch-histories"] = (tier == "thorough")
        # multi-irblock writers and range-end host writes after an invalidation: deterministic, spread over the shards
        # starting with the least loaded ones
        th = tail_histories(tier)
        if not th:
            res.dropped["assembler:host-tail-encoding"] += 1
        for i, h in enumerate(rep_histories(tier) + th):
            if (len(groups) + i) % nshards == shard:
                mine.append(h)
        nrand = 40 if tier == "thorough" else 2
        for _ in range(nrand):
            arch = rng.choice(["x86_32", "arml"])
            if arch == "x86_32":
                off = rng.choice([1, 2, 3, 4])
                width = 1
                value = rng.getrandbits(8)
            else:
                off, width, value = 0, 1, rng.getrandbits(8)
            variant = rng.choice(["same-block-after", "next-instruction", "other-block", "host"])
            h = dict(arch=arch, variant=variant, off=off, width=width, value=value,
                     writer="guest" if variant != "host" else rng.choice(["set_mem", "set_u"]),
                     stop_at=rng.choice(["loop", "patched", "after"]) if variant == "host" else "",
                     hit=rng.choice([1, 2, 3]) if variant == "host" else 0)
            mine.append(h)
        with jitlab.JitLab(time_limit=600 if tier == "thorough" else 300) as lab:
            for h in mine:
                for backend in ("python", "gcc"):
                    r = judge(lab, h, backend)
                    if r is None:
                        res.dropped["time-limit"] += 1
                        continue
                    if isinstance(r, str) and r.startswith("dropped:"):
                        res.dropped[r[8:]] += 1
                        continue
                    res.case(nontrivial_key=(repr(sorted(h.items())), backend),
                             sample=dict(h, backend=backend) if h["variant"] == "next-instruction" else None)
                    res.counters["variant:" + h["variant"]] += 1
                    res.counters["writer:" + h["writer"]] += 1
                    res.counters["backend:" + backend] += 1
                    res.counters["patched-bytes:%d@%d" % (h["width"], h["off"])] += 1
                    if "insn" in h:
                        res.counters["multi-irblock-writer:REP " + h["insn"]] += 1
                    if "inval" in h:
                        res.counters["range-end-write-after:" + h["inval"]] += 1
                    if r != "ok":
                        res.fail(r[0], r[1], dict(h, backend=backend))
            if lab.stats["timeout"]:
                res.dropped["worker-time-limit"] += lab.stats["timeout"]
        return res

    def replay(self, case):
        with jitlab.shared() as lab:
            r = judge(lab, case, case["backend"])
        if r is None or isinstance(r, str):
            return None
        return Failure(r[0], r[1], case)


CHECK = C22()
