"""C22 — modified code is re-translated before it runs again.

Histories on x86_32 and arml template programs (assembled with miasm): a loop executes a `MOV reg, imm` instruction P
three times; between two executions P's first / middle / last byte (or the whole word) is overwritten either by a
guest store (located after P in the same translated block, immediately before P in the same block, or in another
block) or by the host through vm.set_mem / vm.set_u8/16/32 while the run is stopped on a breakpoint (at a block
start or in the middle of the block holding P).  Reference = the same history on the same backend in an
"always retranslate" configuration (jit_maxline = 1, max_exec_per_call = 1, translation cache cleared before every
instruction).  Judged: final registers and memory, and the registers logged by a breakpoint after every execution
of P.
"""
import random

from vlib.runner import Check, ShardResult, Failure
from vlib import jitlab
from checks import c20

STEP_LIMIT = 5000

X86 = {
    # guest store located after P in the same translated block; executes every iteration
    "same-block-after": """
main:
    MOV ECX, 3
    XOR EBX, EBX
    XOR EDX, EDX
    XOR ESI, ESI
    XOR EDI, EDI
loop:
    MOV EAX, 0x11223344
    ADD EBX, EAX
    {store}
after:
    DEC ECX
    JNZ loop
    RET
""",
    # guest store immediately before P in the same translated block (P entered once through a jump first)
    "next-instruction": """
main:
    MOV ECX, 3
    XOR EBX, EBX
    XOR EDX, EDX
    XOR ESI, ESI
    XOR EDI, EDI
    JMP patched
loop:
    {store}
patched:
    MOV EAX, 0x11223344
    ADD EBX, EAX
after:
    DEC ECX
    JNZ loop
    RET
""",
    # guest store in another block, executed in the second iteration only
    "other-block": """
main:
    MOV ECX, 3
    XOR EBX, EBX
    XOR EDX, EDX
    XOR ESI, ESI
    XOR EDI, EDI
loop:
    MOV EAX, 0x11223344
    ADD EBX, EAX
after:
    CMP ECX, 2
    JNZ skip
    {store}
skip:
    DEC ECX
    JNZ loop
    RET
""",
    # no guest store: the host writes while the run is stopped
    "host": """
main:
    MOV ECX, 3
    XOR EBX, EBX
    XOR EDX, EDX
    XOR ESI, ESI
    XOR EDI, EDI
loop:
    INC EDI
patched:
    MOV EAX, 0x11223344
    ADD EBX, EAX
after:
    DEC ECX
    JNZ loop
    RET
""",
}

ARM = {
    "same-block-after": """
main:
    MOV R2, 3
    MOV R1, 0
    MOV R5, 0
loop:
    MOV R0, 0x11
    ADD R1, R1, R0
    {store}
after:
    SUBS R2, R2, 1
    BNE loop
    BX LR
""",
    "next-instruction": """
main:
    MOV R2, 3
    MOV R1, 0
    MOV R5, 0
    B patched
loop:
    {store}
patched:
    MOV R0, 0x11
    ADD R1, R1, R0
after:
    SUBS R2, R2, 1
    BNE loop
    BX LR
""",
    "other-block": """
main:
    MOV R2, 3
    MOV R1, 0
    MOV R5, 0
loop:
    MOV R0, 0x11
    ADD R1, R1, R0
after:
    CMP R2, 2
    BNE skip
    {store}
skip:
    SUBS R2, R2, 1
    BNE loop
    BX LR
""",
    "host": """
main:
    MOV R2, 3
    MOV R1, 0
    MOV R5, 0
loop:
    ADD R6, R6, 1
patched:
    MOV R0, 0x11
    ADD R1, R1, R0
after:
    SUBS R2, R2, 1
    BNE loop
    BX LR
""",
}

# patch descriptions: (byte offset in P, width in bytes, value) — every value gives a valid instruction that does not
# touch the loop counter
X86_PATCHES = [(0, 1, 0xBB), (0, 1, 0xBA), (0, 1, 0xBE), (1, 1, 0x99), (2, 1, 0x00), (3, 1, 0xFF), (4, 1, 0x7F),
               (1, 2, 0xBEEF), (3, 2, 0x1234), (1, 4, 0xCAFEBABE)]
ARM_PATCHES = [(0, 1, 0x7F), (0, 1, 0x00), (1, 1, 0x50), (2, 1, 0xE0), (3, 1, 0x13), (0, 2, 0x5042),
               (0, 4, 0xE3A05099), (0, 4, 0xE2811003)]
LOG_REGS = {"x86_32": ["RAX", "RBX", "RDX", "RSI", "RDI"], "arml": ["R0", "R1", "R5"]}


def store_text(arch, width, value):
    if arch == "x86_32":
        return "MOV %s PTR [EBP], 0x%X" % ({1: "BYTE", 2: "WORD", 4: "DWORD"}[width], value)
    return {1: "STRB R3, [R4]", 2: "STRH R3, [R4]", 4: "STR R3, [R4]"}[width]


_asm_cache = {}


def build(arch, variant, width, value):
    key = (arch, variant, width, value if arch == "x86_32" else 0)
    if key not in _asm_cache:
        text = (X86 if arch == "x86_32" else ARM)[variant].replace("{store}", store_text(arch, width, value))
        lay = jitlab.layout(arch)
        try:
            code, labels = jitlab.assemble(arch, text, lay["code"])
            labels.setdefault("patched", labels["loop"])     # P is the first instruction of the loop there
            _asm_cache[key] = (code, labels)
        except Exception as e:
            _asm_cache[key] = (None, "asm:%s" % type(e).__name__)
    return _asm_cache[key]


def make_scenario(hist, backend, retranslate):
    """hist: dict(arch, variant, off, width, value, writer, stop_at, hit) -> scenario"""
    arch = hist["arch"]
    code, labels = build(arch, hist["variant"], hist["width"], hist["value"])
    if code is None:
        return None
    lay = jitlab.layout(arch)
    target = labels["patched"] + hist["off"]
    if arch == "x86_32":
        regs_extra = {"EBP": target}
    else:
        regs_extra = {"R4": target, "R3": hist["value"]}
    scn = jitlab.call_scenario(arch, code, [], [], code_addr=labels["__base__"], entry=labels["main"])
    scn["regs"].update(regs_extra)
    scn["step_limit"] = STEP_LIMIT
    script = [scn["script"][0], ["bp", "L", labels["after"], {"log_regs": LOG_REGS[arch]}]]
    if hist["variant"] == "host":
        stop = labels[hist["stop_at"]]
        script.append(["bp", "H", stop, {"ret_at": {str(hist["hit"]): "false"}}])
        script.append(["init_run", labels["main"]])
        script.append(["cont"])
        data = jitlab.pack(hist["value"], hist["width"], False)
        if hist["writer"] == "set_mem":
            script.append(["set_mem", target, data.hex()])
        else:
            script.append(["set_u", 8 * hist["width"], target, hist["value"]])
        script.append(["cont"])
    else:
        script.append(["run", labels["main"]])
    scn["script"] = script
    if retranslate:
        scn["exec_cb"] = "retranslate"
        scn["options"] = {"jit_maxline": 1, "max_exec_per_call": 1}
    return scn


def summary(obs):
    ev = []
    for e in obs["events"]:
        if e[0] == "bp":
            ev.append(e[:5])
        elif e[0] == "cont":
            ev.append(e[:5])
    return ev


def judge(lab, hist, backend):
    """-> None inconclusive | "ok" | "dropped:<reason>" | (bucket, detail)"""
    sr = make_scenario(hist, backend, True)
    if sr is None:
        return "dropped:assembler"
    ref = lab.run(sr, backend)
    got = lab.run(make_scenario(hist, backend, False), backend)
    for o in (ref, got):
        if "setup_error" in o:
            raise RuntimeError("jitlab setup error: %s\n%s" % (o["setup_error"], o.get("tb")))
        if "timeout" in o:
            return None
    if "died" in ref:
        return "dropped:reference-died"
    rterm = c20.term_tuple(ref)
    if rterm[0] == "pyexc":
        return "dropped:reference-unsupported:%s" % rterm[1]
    pre = "%s|%s|%s|%s" % (hist["arch"], backend, hist["variant"],
                           hist["writer"] + ("@" + hist["stop_at"] if hist["variant"] == "host" else ""))
    what = "byte%d/%d" % (hist["off"], hist["width"])
    desc = "history %r" % (hist,)
    if "died" in got:
        return (pre + "|worker-died", "worker died (%r); %s" % (got["died"], desc))
    er, eg = summary(ref), summary(got)
    if er != eg:
        i = 0
        while i < min(len(er), len(eg)) and er[i] == eg[i]:
            i += 1
        return (pre + "|stale-or-wrong-execution",
                "event %d differs (%s patched): always-retranslate reference %r, got %r; %s"
                % (i, what, er[i] if i < len(er) else None, eg[i] if i < len(eg) else None, desc))
    d = jitlab.diff_snap(ref["final"], got["final"])
    if d:
        return (pre + "|final-state", "final state differs from the always-retranslate reference (%s patched): %s; %s"
                % (what, "; ".join(d[:5]), desc))
    return "ok"


def histories(arch):
    """Deterministic enumeration."""
    patches = X86_PATCHES if arch == "x86_32" else ARM_PATCHES
    out = []
    for off, width, value in patches:
        for variant in ("same-block-after", "next-instruction", "other-block"):
            out.append(dict(arch=arch, variant=variant, off=off, width=width, value=value, writer="guest",
                            stop_at="", hit=0))
        for stop_at in ("loop", "patched", "after"):
            for writer in ("set_mem", "set_u"):
                out.append(dict(arch=arch, variant="host", off=off, width=width, value=value, writer=writer,
                                stop_at=stop_at, hit=2))
    return out


class C22(Check):
    pid = "C22"
    needs_build = True
    rule = ("x86_32 and arml loop templates executing a `MOV reg, imm` instruction P three times; P's first / middle "
            "/ last byte, half or whole word is overwritten between executions by a guest store (after P in the "
            "same block, immediately before P in the same block, in another block) or by the host (vm.set_mem, "
            "vm.set_u8/16/32) while stopped on a breakpoint at the loop head, on P, or right after P; fixed patch "
            "values (10 for x86_32, 8 for arml; every other one in the quick tier, all in thorough), plus seeded random immediates "
            "and stop iterations; both backends; reference = same history with the translation cache cleared "
            "before every instruction. Non-trivial: P executes before and after the write (every history, by "
            "construction); distinct by (history, backend).")
    assumptions = ["python and gcc backends only (llvmlite absent)",
                   "the always-retranslate configuration (jit_maxline=1, max_exec_per_call=1, clear_jitted_blocks() "
                   "from exec_cb before every instruction) of the same backend is trusted as the reference",
                   "code pages are mapped read+write; patches always yield a valid instruction that leaves the "
                   "loop counter alone"]
    level_text = ("history-based differential testing of code-write tracking and invalidation against an "
                  "always-retranslate run, deterministic enumeration plus random immediates")
    technique = "differential testing against a cache-free reference over enumerated self-modification histories"
    all_exhaustive = False

    def nshards(self, tier):
        return 16

    def run_shard(self, tier, seed, shard, nshards):
        res = ShardResult()
        if not jitlab.shard_enabled(shard):
            res.dropped["shard-not-selected(VERIF_ONLY_SHARDS)"] += 1
            res.exhaustive["all-shards-run"] = False
            return res
        rng = random.Random(seed)
        hs = []
        for arch in ("x86_32", "arml"):
            hs += histories(arch)
        # histories sharing a program (architecture, patch) go to the same shard; the quick tier takes the patches
        # of even index (first / middle / last byte and a wide patch are all still present)
        groups = sorted(set((h["arch"], h["off"], h["width"], h["value"]) for h in hs))
        if tier != "thorough":
            groups = groups[::2]
        owner = {g: i % nshards for i, g in enumerate(groups)}
        mine = [h for h in hs if owner.get((h["arch"], h["off"], h["width"], h["value"])) == shard]
        res.exhaustive["fixed-patch-histories"] = (tier == "thorough")
        nrand = 40 if tier == "thorough" else 2
        for _ in range(nrand):
            arch = rng.choice(["x86_32", "arml"])
            if arch == "x86_32":
                off = rng.choice([1, 2, 3, 4])
                width = 1
                value = rng.getrandbits(8)
            else:
                off, width, value = 0, 1, rng.getrandbits(8)
            variant = rng.choice(["same-block-after", "next-instruction", "other-block", "host"])
            h = dict(arch=arch, variant=variant, off=off, width=width, value=value,
                     writer="guest" if variant != "host" else rng.choice(["set_mem", "set_u"]),
                     stop_at=rng.choice(["loop", "patched", "after"]) if variant == "host" else "",
                     hit=rng.choice([1, 2, 3]) if variant == "host" else 0)
            mine.append(h)
        with jitlab.JitLab(time_limit=600 if tier == "thorough" else 300) as lab:
            for h in mine:
                for backend in ("python", "gcc"):
                    r = judge(lab, h, backend)
                    if r is None:
                        res.dropped["time-limit"] += 1
                        continue
                    if isinstance(r, str) and r.startswith("dropped:"):
                        res.dropped[r[8:]] += 1
                        continue
                    res.case(nontrivial_key=(repr(sorted(h.items())), backend),
                             sample=dict(h, backend=backend) if h["variant"] == "next-instruction" else None)
                    res.counters["variant:" + h["variant"]] += 1
                    res.counters["writer:" + h["writer"]] += 1
                    res.counters["backend:" + backend] += 1
                    res.counters["patched-bytes:%d@%d" % (h["width"], h["off"])] += 1
                    if r != "ok":
                        res.fail(r[0], r[1], dict(h, backend=backend))
            if lab.stats["timeout"]:
                res.dropped["worker-time-limit"] += lab.stats["timeout"]
        return res

    def replay(self, case):
        with jitlab.shared() as lab:
            r = judge(lab, case, case["backend"])
        if r is None or isinstance(r, str):
            return None
        return Failure(r[0], r[1], case)


CHECK = C22()
