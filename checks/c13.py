"""C13 — the symbolic engine's memory is a little-endian byte store.

Model-based histories over SymbolicExecutionEngine / SymbolMngr / MemSparse (documented API
only).  One history = a configuration op (address size 16/32/64: msp430 / x86_32 / x86_64
lifter) followed by <= 30 ops:

  w     write a value of 1..8 bytes at window offset (eval_updt_expr(ExprAssign), eval_updt_assignblk,
        symbols.write, mem_write, apply_change, symbols[mem] = v)
  r     read 1..8 bytes (eval_expr, symbols.read, mem_read, symbols[mem], eval_updt_expr)
  del   del symbols[mem]                      (KeyError unless the whole cell is stored)
  delp  symbols.symbols_mem.delete_partial
  dels  engine.del_mem_above_stack(ptr)
  in    mem in symbols / contains_partial
  exp   export + import into a fresh engine   (get_state/set_state, .state, constructor, symbols.copy)

Addresses are (window, delta): a window is a (base, centre) pair, delta in -14..14, so that
accesses overlap, touch offset 0 / 2^n-1 (wrap-around) and the sign boundary.  Bases: the
integer base, identifiers a, b, c and the compound a+b.

Model: dict (base, offset mod 2^n) -> one concrete byte per valuation (3 fixed valuations of
the identifiers, hash memory of vlib.refeval for the untouched cells).  After every mutation
every byte of every touched window is read back and compared; wide reads compare the
little-endian assembly of model bytes / original cells.
"""
from vlib.runner import Check, ShardResult, Failure
from vlib import hyp
from vlib.hyp import CheckFailure
from vlib.refeval import S, Env, mask

ARCH = {16: "msp430", 32: "x86_32", 64: "x86_64"}
NVAL = 3
DELTA = 14
NWIN = 7
WIDTHS = [1, 2, 4, 8, 3, 5, 6, 7]

_lifters = {}


def get_lifter(asz):
    if asz not in _lifters:
        from miasm.analysis.machine import Machine
        from miasm.core.locationdb import LocationDB
        import warnings
        with warnings.catch_warnings():
            warnings.simplefilter("ignore")
            _lifters[asz] = Machine(ARCH[asz]).lifter(LocationDB())
        assert _lifters[asz].addrsize == asz
    return _lifters[asz]


def _where(ex):
    import traceback
    for fr in reversed(traceback.extract_tb(ex.__traceback__)):
        if "/miasm/" in fr.filename:
            return "%s:%s" % (fr.filename.split("/miasm/")[-1], fr.name)
    return "?"


# per valuation: high 16 bits of the identifier values (scaled to the address size); chosen so
# that every window is >= 0x400 bytes away from every other one under every valuation
_VALS = [
    {"a": 0x4000, "b": 0x2000, "c": 0x5000},
    {"a": 0x7000, "b": 0x3000, "c": 0x0800},
    {"a": 0x2400, "b": 0x9000, "c": 0x6000},
]
_LOW = [0x00, 0x5a, 0xff]


class Sim(object):
    """Real engine + byte model.  Ops are lists of small ints (see module docstring)."""

    def __init__(self):
        self.engine = None
        self.stats = set()
        self.last_mut = "init"
        self.last_value = None
        self.soft = {}                  # bucket -> detail of non-fatal discrepancies
        self.nsteps = 0

    # ---------------------------------------------------------------- setup
    def configure(self, asz):
        import miasm.expression.expression as m
        from miasm.ir.symbexec import SymbolicExecutionEngine
        self.m = m
        self.SEE = SymbolicExecutionEngine
        self.asz = asz
        self.mask = mask(asz)
        self.lifter = get_lifter(asz)
        self.engine = self.new_engine()
        ids = {n: m.ExprId(n, asz) for n in "abc"}
        self.bases = {"int": None, "a": ids["a"], "b": ids["b"], "c": ids["c"],
                      "a+b": m.ExprOp('+', ids["a"], ids["b"])}
        half = 1 << (asz - 1)
        self.windows = [("int", 0), ("int", 0x1000), ("a", 0), ("a", half), ("b", 0), ("a+b", 0), ("c", 0)]
        sh = asz - 16
        self.idvals = []
        self.basevals = []
        for k in range(NVAL):
            low = _LOW[k] if asz > 16 else 0
            d = {(n, asz): ((v << sh) + low) & self.mask for n, v in _VALS[k].items()}
            # value identifiers (x8..x64, y.., z..) are left to the keyed hash of Env
            self.idvals.append(d)
            bv = {"int": 0, "a": d[("a", asz)], "b": d[("b", asz)], "c": d[("c", asz)],
                  "a+b": (d[("a", asz)] + d[("b", asz)]) & self.mask}
            self.basevals.append(bv)
            centres = sorted((bv[b] + c) & self.mask for b, c in self.windows)
            for x, y in zip(centres, centres[1:] + [centres[0] + (1 << asz)]):
                assert y - x >= 0x100, "windows too close"
        self.model = {}                       # (basekey, off) -> (bytes per valuation, write id)
        self.overlay = [dict() for _ in range(NVAL)]   # current concrete memory per valuation
        self.touched = set()
        self.wid = 0

    def new_engine(self, state=None):
        if state is None:
            return self.SEE(self.lifter)
        return self.SEE(self.lifter, state)

    def env_init(self, k):
        return Env(ids=self.idvals[k], key=k)

    def env_cur(self, k):
        return Env(ids=self.idvals[k], key=k, mem=self.overlay[k])

    def addr(self, k, basekey, off):
        return (self.basevals[k][basekey] + off) & self.mask

    # ---------------------------------------------------------------- expressions
    def offset(self, win, offc):
        """win >= NWIN: the history's focus window; offc > 2*DELTA: focus delta -4..+5"""
        win = self.winidx(win)
        basekey, centre = self.windows[win]
        if offc > 2 * DELTA:
            d = self.focus[1] - DELTA + (offc - (2 * DELTA + 1)) % 10 - 4
            d = max(-DELTA, min(DELTA, d))
        else:
            d = offc - DELTA
        return basekey, (centre + d) & self.mask

    def winidx(self, win):
        return win if win < NWIN else self.focus[0]

    def ptr(self, basekey, off, form=0):
        m = self.m
        n = self.asz
        if basekey == "int":
            if form == 1:
                return m.ExprOp('+', m.ExprInt((off - 1) & self.mask, n), m.ExprInt(1, n))
            return m.ExprInt(off, n)
        B = self.bases[basekey]
        if form == 0:
            if off == 0:
                return B
            if basekey == "a+b":
                return m.ExprOp('+', B.args[0], B.args[1], m.ExprInt(off, n))
            return m.ExprOp('+', B, m.ExprInt(off, n))
        if form == 1:
            return m.ExprOp('+', m.ExprInt(off, n), B)
        if form == 2:
            return m.ExprOp('+', m.ExprOp('+', B, m.ExprInt((off - 3) & self.mask, n)), m.ExprInt(3, n))
        if form == 3:
            return m.ExprOp('-', B, m.ExprInt((-off) & self.mask, n))
        if basekey == "a+b":
            return m.ExprOp('+', B.args[1], m.ExprInt(off, n), B.args[0])
        return m.ExprOp('+', B, m.ExprInt(off, n))

    def value(self, w, kind, va, vb):
        """value expression of w bytes"""
        m = self.m
        bits = 8 * w
        kind %= 8
        if kind == 0:
            pat = [0x8877665544332211, 0, mask(64), 0x0102030405060708, 0x80, 0xA5A5A5A5A5A5A5A5][va % 6]
            return m.ExprInt(pat & mask(bits), bits)
        if kind == 1:
            return m.ExprId("%s%d" % ("xy"[va % 2], bits), bits)
        if kind == 2:
            wide = m.ExprId("z%d" % (2 * bits), 2 * bits)
            start = [0, 8, bits][va % 3]
            return m.ExprSlice(wide, start, start + bits)
        if kind in (3, 4, 5):
            basekey, off = self.offset(va, vb)
            memv = m.ExprMem(self.ptr(basekey, off), bits)
            if kind == 3:
                return memv
            if kind == 4:
                return m.ExprOp('^', memv, m.ExprId("x%d" % bits, bits))
            if w < 2:
                return memv
            lo = 8 * (w // 2)
            mlo = m.ExprMem(self.ptr(basekey, off), lo)
            rest = m.ExprId("y%d" % (bits - lo), bits - lo)
            return m.ExprCompose(mlo, rest) if va & 1 else m.ExprCompose(rest, mlo)
        if kind == 6:
            # two adjacent narrower reads glued together
            if w < 2:
                return m.ExprId("x8", 8)
            basekey, off = self.offset(va, vb)
            lo = w // 2
            p1 = m.ExprMem(self.ptr(basekey, off), 8 * lo)
            gap = [lo, lo, lo + 1, 0][vb % 4]
            p2 = m.ExprMem(self.ptr(basekey, (off + gap) & self.mask), bits - 8 * lo)
            return m.ExprCompose(p1, p2)
        # kind 7: a read through a pointer of another width (stored value only, never a key)
        pw = 16 if self.asz != 16 else 32
        p = m.ExprId("p%d" % pw, pw)
        off = [0, 1, mask(pw), mask(pw) - 1, 0x10000 & mask(pw)][va % 5]
        return m.ExprMem(p if off == 0 else m.ExprOp('+', p, m.ExprInt(off, pw)), bits)

    # ---------------------------------------------------------------- checks
    def fail(self, kind, basekey, off, w, detail):
        wrap = off + w > self.mask + 1
        if kind.startswith("read"):
            kind = "%s:after-%s" % (kind, self.last_mut)
        bucket = "%s:%s:%s" % (kind, "wrap" if wrap else "nowrap", "intbase" if basekey == "int" else "symbase")
        detail = "addrsize %d, step %d: %s" % (self.asz, self.nsteps, detail)
        if kind.startswith(("read", "contains")):
            # a wrong answer of a query does not change the store: record it and go on, so that one
            # shallow defect does not hide what follows in the history
            if bucket not in self.soft:
                self.soft[bucket] = detail
            return
        raise CheckFailure(bucket, detail)

    def expected(self, k, basekey, off, w):
        env = self.env_init(k)
        v = 0
        for i in range(w):
            key = (basekey, (off + i) & self.mask)
            ent = self.model.get(key)
            if ent is not None:
                b = ent[0][k]
            else:
                b = env.read_byte(self.asz, self.addr(k, basekey, key[1]))
            v |= b << (8 * i)
        return v

    def check_value(self, what, res, basekey, off, w):
        if res.size != 8 * w:
            self.fail("read-width", basekey, off, w, "%s has width %d, expected %d" % (what, res.size, 8 * w))
        for k in range(NVAL):
            got = S(res, self.env_init(k))
            exp = self.expected(k, basekey, off, w)
            if got != exp:
                kind = "read-foreignptr" if self.has_foreign_ptr(res) else "read"
                self.fail(kind, basekey, off, w, "%s = %s ; under valuation %d (%s) evaluates to 0x%x, byte store "
                          "gives 0x%x ; store: %s" % (what, res, k, self.valdesc(k), got, exp, self.dump_model(basekey)))

    def has_foreign_ptr(self, e):
        """e contains a memory read through a pointer whose width is not the engine's address size"""
        from vlib.simplab import subexprs
        return any(x.is_mem() and x.ptr.size != self.asz for x in subexprs(e))

    def valdesc(self, k):
        return ",".join("%s=0x%x" % (n, v) for (n, _), v in sorted(self.idvals[k].items()))

    def dump_model(self, basekey):
        offs = sorted(o for (b, o) in self.model if b == basekey)
        return "%s+{%s}" % (basekey, ",".join("0x%x" % o for o in offs))

    def do_read(self, api, basekey, off, w, form=0):
        m = self.m
        api %= 5
        if api in (0, 4):
            mem = m.ExprMem(self.ptr(basekey, off, form), 8 * w)
        else:
            mem = m.ExprMem(self.ptr(basekey, off, 0), 8 * w)
            if basekey == "a+b":
                mem = m.ExprMem(self.engine.eval_expr(mem.ptr), 8 * w)
        name = ["eval_expr", "symbols.read", "mem_read", "symbols[]", "eval_updt_expr"][api]
        try:
            if api == 0:
                res = self.engine.eval_expr(mem)
            elif api == 1:
                res = self.engine.symbols.read(mem)
            elif api == 2:
                res = self.engine.mem_read(mem)
            elif api == 3:
                res = self.engine.symbols[mem]
            else:
                res = self.engine.eval_updt_expr(mem)
        except Exception as ex:
            raise CheckFailure("exception:%s:%s@%s" % (name, type(ex).__name__, _where(ex)),
                               "%s(%s) raised %r after %s; store: %s" % (name, mem, ex, self.last_mut,
                                                                        self.dump_model(basekey)))
        self.check_value("%s(%s)" % (name, mem), res, basekey, off, w)

    def sweep(self):
        for win in sorted(self.touched):
            basekey, centre = self.windows[win]
            for d in range(-DELTA - 1, DELTA + 9):
                self.do_read(0, basekey, (centre + d) & self.mask, 1)

    def set_bytes(self, basekey, off, w, vals):
        self.wid += 1
        partial = set()
        for i in range(w):
            key = (basekey, (off + i) & self.mask)
            old = self.model.get(key)
            if old is not None:
                partial.add(old[1])
            bs = tuple((vals[k] >> (8 * i)) & 0xff for k in range(NVAL))
            self.model[key] = (bs, self.wid)
            for k in range(NVAL):
                self.overlay[k][(self.asz, self.addr(k, basekey, key[1]))] = bs[k]
        # an older write survives partially -> overlapping write
        for wid in partial:
            if any(e[1] == wid for e in self.model.values()):
                self.stats.add("overlap")
        if off + w > self.mask + 1:
            self.stats.add("wrap")

    def drop(self, key):
        self.model.pop(key)
        basekey, off = key
        for k in range(NVAL):
            self.overlay[k].pop((self.asz, self.addr(k, basekey, off)), None)

    def is_original(self, key):
        """the stored bytes equal the original cell under every valuation (the engine may or may not keep it)"""
        bs = self.model[key][0]
        basekey, off = key
        return all(bs[k] == self.env_init(k).read_byte(self.asz, self.addr(k, basekey, off)) for k in range(NVAL))

    def presence(self, basekey, off, w):
        """-> (all surely present, none possibly present)"""
        sure = True
        none = True
        for i in range(w):
            key = (basekey, (off + i) & self.mask)
            if key not in self.model:
                sure = False
            else:
                if self.is_original(key):
                    sure = False
                else:
                    none = False
        return sure, none

    def canon_mem(self, basekey, off, w):
        m = self.m
        mem = m.ExprMem(self.ptr(basekey, off, 0), 8 * w)
        if basekey == "a+b":
            mem = m.ExprMem(self.engine.eval_expr(mem.ptr), 8 * w)
        return mem

    # ---------------------------------------------------------------- ops
    def step(self, op):
        self.nsteps += 1
        name = op[0]
        if name == "cfg":
            self.focus = (op[2] % NWIN, op[3] % (2 * DELTA + 1))
            self.configure([16, 32, 64][op[1] % 3])
            return
        if self.engine is None:
            self.focus = (2, DELTA)
            self.configure(32)
        getattr(self, "op_" + name)(*op[1:])

    def op_w(self, api, win, offc, wi, kind, va, vb, form):
        m = self.m
        from miasm.ir.ir import AssignBlock
        basekey, off = self.offset(win, offc)
        w = WIDTHS[wi % len(WIDTHS)]
        api %= 6
        evaluated = api in (0, 1)
        kind %= 10
        if kind >= 8 and self.last_value is not None:
            # the same value again (same width), so that equal bytes of two writes become neighbours
            val = self.last_value
            w = val.size // 8
            self.stats.add("same-value-twice")
        else:
            val = self.value(w, kind, va, vb)
        self.last_value = val
        vals = [S(val, self.env_cur(k) if evaluated else self.env_init(k)) for k in range(NVAL)]
        if evaluated:
            mem = m.ExprMem(self.ptr(basekey, off, form), 8 * w)
        else:
            mem = self.canon_mem(basekey, off, w)
        name = ["eval_updt_expr", "eval_updt_assignblk", "symbols.write", "mem_write", "apply_change",
                "symbols[]="][api]
        try:
            if api == 0:
                self.engine.eval_updt_expr(m.ExprAssign(mem, val))
            elif api == 1:
                self.engine.eval_updt_assignblk(AssignBlock([m.ExprAssign(mem, val)]))
            elif api == 2:
                self.engine.symbols.write(mem, val)
            elif api == 3:
                self.engine.mem_write(mem, val)
            elif api == 4:
                self.engine.apply_change(mem, val)
            else:
                self.engine.symbols[mem] = val
        except Exception as ex:
            raise CheckFailure("exception:%s:%s@%s" % (name, type(ex).__name__, _where(ex)),
                               "%s(%s = %s) raised %r; store: %s" % (name, mem, val, ex, self.dump_model(basekey)))
        self.set_bytes(basekey, off, w, vals)
        self.touched.add(self.winidx(win))
        self.last_mut = "write"
        self.stats.add("write")
        if kind in (3, 4, 5, 6):
            self.stats.add("memvalue")
        self.sweep()
        # wide reads around the written cell
        for d in (-1, 0, 1):
            self.do_read(0, basekey, (off + d) & self.mask, w)
        self.do_read(0, basekey, (off - 2) & self.mask, 8)

    def op_r(self, api, win, offc, wi, form):
        basekey, off = self.offset(win, offc)
        w = WIDTHS[wi % len(WIDTHS)]
        self.do_read(api, basekey, off, w, form)
        if off + w > self.mask + 1:
            self.stats.add("wrap")
        if any((basekey, (off + i) & self.mask) in self.model for i in range(w)):
            self.stats.add("read-stored")

    def op_del(self, win, offc, wi):
        basekey, off = self.offset(win, offc)
        w = WIDTHS[wi % len(WIDTHS)]
        mem = self.canon_mem(basekey, off, w)
        sure, none = self.presence(basekey, off, w)
        missing = any((basekey, (off + i) & self.mask) not in self.model for i in range(w))
        try:
            del self.engine.symbols[mem]
            raised = False
        except KeyError:
            raised = True
        except Exception as ex:
            raise CheckFailure("exception:del:%s@%s" % (type(ex).__name__, _where(ex)),
                               "del symbols[%s] raised %r; store: %s" % (mem, ex, self.dump_model(basekey)))
        self.last_mut = "del"
        if sure and raised:
            self.fail("del-keyerror", basekey, off, w, "del symbols[%s] raised KeyError though every byte is stored; "
                      "store: %s" % (mem, self.dump_model(basekey)))
        if missing and not raised:
            self.fail("del-no-keyerror", basekey, off, w, "del symbols[%s] did not raise though a byte is not stored; "
                      "store: %s" % (mem, self.dump_model(basekey)))
        if not raised:
            for i in range(w):
                key = (basekey, (off + i) & self.mask)
                if key in self.model:
                    self.drop(key)
            self.stats.add("delete")
        self.touched.add(self.winidx(win))
        self.sweep()

    def op_delp(self, win, offc, wi):
        basekey, off = self.offset(win, offc)
        w = WIDTHS[wi % len(WIDTHS)]
        mem = self.canon_mem(basekey, off, w)
        has_base = any(b == basekey for (b, _) in self.model)
        try:
            self.engine.symbols.symbols_mem.delete_partial(mem)
        except KeyError as ex:
            if has_base and not all(self.is_original(k) for k in self.model if k[0] == basekey):
                self.last_mut = "delp"
                self.fail("delp-keyerror", basekey, off, w, "delete_partial(%s) raised KeyError; store: %s"
                          % (mem, self.dump_model(basekey)))
            return
        except Exception as ex:
            raise CheckFailure("exception:delete_partial:%s@%s" % (type(ex).__name__, _where(ex)),
                               "delete_partial(%s) raised %r; store: %s" % (mem, ex, self.dump_model(basekey)))
        self.last_mut = "delp"
        for i in range(w):
            key = (basekey, (off + i) & self.mask)
            if key in self.model:
                self.drop(key)
                self.stats.add("delete")
        self.touched.add(self.winidx(win))
        self.sweep()

    def op_dels(self, win, offc):
        basekey, off = self.offset(win, offc)
        if basekey == "int":
            ptr = self.ptr(basekey, off, 0)
        else:
            ptr = self.ptr(basekey, off, 1)
        try:
            self.engine.del_mem_above_stack(ptr)
        except Exception as ex:
            raise CheckFailure("exception:del_mem_above_stack:%s@%s" % (type(ex).__name__, _where(ex)),
                               "del_mem_above_stack(%s) raised %r; store: %s" % (ptr, ex, self.dump_model(basekey)))
        self.last_mut = "dels"
        half = 1 << (self.asz - 1)
        for key in [k for k in self.model if k[0] == basekey]:
            if (key[1] - off) & self.mask >= half:
                self.drop(key)
                self.stats.add("delete")
        self.sweep()

    def op_in(self, win, offc, wi):
        basekey, off = self.offset(win, offc)
        w = WIDTHS[wi % len(WIDTHS)]
        mem = self.canon_mem(basekey, off, w)
        sure, none = self.presence(basekey, off, w)
        nokey = all((basekey, (off + i) & self.mask) not in self.model for i in range(w))
        missing = any((basekey, (off + i) & self.mask) not in self.model for i in range(w))
        try:
            full = mem in self.engine.symbols
            part = self.engine.symbols.symbols_mem.contains_partial(mem)
        except Exception as ex:
            raise CheckFailure("exception:contains:%s@%s" % (type(ex).__name__, _where(ex)),
                               "%s in symbols raised %r" % (mem, ex))
        if sure and not full:
            self.fail("contains-false", basekey, off, w, "(%s in symbols) is False though every byte is stored; "
                      "store: %s" % (mem, self.dump_model(basekey)))
        if missing and full:
            self.fail("contains-true", basekey, off, w, "(%s in symbols) is True though a byte is not stored; store: %s"
                      % (mem, self.dump_model(basekey)))
        if nokey and part:
            self.fail("contains_partial-true", basekey, off, w, "contains_partial(%s) is True, no byte stored; store: %s"
                      % (mem, self.dump_model(basekey)))
        if not none and not part:
            self.fail("contains_partial-false", basekey, off, w, "contains_partial(%s) is False though a byte is "
                      "stored; store: %s" % (mem, self.dump_model(basekey)))
        if off + w > self.mask + 1 and not nokey:
            self.stats.add("wrap")

    def op_exp(self, how):
        how %= 5
        name = ["get_state/set_state", ".state", "constructor", "symbols.copy", "SymbolMngr(init)"][how]
        try:
            if how == 0:
                state = self.engine.get_state()
                cells = dict(state)
                neweng = self.new_engine()
                neweng.set_state(state)
            elif how == 1:
                state = self.engine.state
                cells = dict(state)
                neweng = self.new_engine()
                neweng.state = state
            elif how == 2:
                cells = self.engine.get_state().symbols
                neweng = self.new_engine(dict(cells))
            elif how == 3:
                cells = dict(self.engine.symbols.items())
                neweng = self.new_engine()
                neweng.symbols = self.engine.symbols.copy()
            else:
                from miasm.ir.symbexec import SymbolMngr
                cells = dict(self.engine.symbols.memory())
                neweng = self.new_engine()
                neweng.symbols = SymbolMngr(dict(cells), addrsize=self.asz, expr_simp=neweng.expr_simp)
        except Exception as ex:
            raise CheckFailure("exception:export-%s:%s@%s" % (name, type(ex).__name__, _where(ex)),
                               "%s raised %r; store: %s" % (name, ex, sorted(self.model)))
        self.last_mut = "export-" + name
        self.stats.add("export")
        self.check_cells(cells, name)
        self.engine = neweng
        self.sweep()
        for win in sorted(self.touched):
            basekey, centre = self.windows[win]
            for d in (-DELTA, -9, -4, -1, 0, 3):
                self.do_read(0, basekey, (centre + d) & self.mask, 8)

    def check_cells(self, cells, name):
        """exported cells: disjoint, cover every stored byte that differs from the original, right values"""
        seen = {}
        for mem, val in cells.items():
            if not mem.is_mem():
                continue
            base, off = self.split(mem.ptr)
            if base is None:
                raise CheckFailure("export-%s:foreign-cell" % name, "exported cell %s is not in any written base" % mem)
            w = mem.size // 8
            if mem.size % 8 or val.size != mem.size:
                self.fail("export-width", base, off, w, "exported %s = %s (widths %d, %d)" % (mem, val, mem.size,
                                                                                           val.size))
            for i in range(w):
                key = (base, (off + i) & self.mask)
                if key in seen:
                    self.fail("export-overlap", base, off, w, "cells %s and %s overlap" % (seen[key], mem))
                seen[key] = mem
            for k in range(NVAL):
                got = S(val, self.env_init(k))
                exp = self.expected(k, base, off, w)
                if got != exp:
                    self.fail("export-value", base, off, w, "exported %s = %s ; under valuation %d evaluates to 0x%x, "
                              "byte store gives 0x%x; store: %s" % (mem, val, k, got, exp, self.dump_model(base)))
        for key in self.model:
            if key not in seen and not self.is_original(key):
                self.fail("export-missing", key[0], key[1], 1, "stored byte %s+0x%x not exported by %s; cells: %s"
                          % (key[0], key[1], name, sorted(str(c) for c in cells)))

    def split(self, ptr):
        """(basekey, offset) of an exported pointer; own decomposition"""
        m = self.m
        if ptr.is_int():
            return "int", int(ptr)
        for key in ("a", "b", "c"):
            if ptr == self.bases[key]:
                return key, 0
        if ptr.is_op('+'):
            ints = [a for a in ptr.args if a.is_int()]
            rest = [a for a in ptr.args if not a.is_int()]
            off = sum(int(a) for a in ints) & self.mask
            names = sorted(a.name for a in rest if a.is_id())
            if len(names) != len(rest):
                return None, None
            if names == ["a", "b"]:
                return "a+b", off
            if len(names) == 1 and names[0] in "abc":
                return names[0], off
        return None, None

    def finish(self):
        pass


def _op_strategy():
    from hypothesis import strategies as st
    i = st.integers
    win = i(0, 3 * NWIN).map(lambda x: x if x < NWIN else NWIN)            # 2/3: the focus window
    offc = i(0, 4 * DELTA + 10).map(lambda x: x if x <= 2 * DELTA else 2 * DELTA + 1 + x % 10)   # ~1/2 near the focus
    wi = i(0, len(WIDTHS) - 1)

    @st.composite
    def op(draw):
        k = draw(i(0, 19))
        if k < 9:
            return ["w", draw(i(0, 5)), draw(win), draw(offc), draw(wi), draw(i(0, 9)), draw(win), draw(offc),
                    draw(i(0, 4))]
        if k < 12:
            return ["r", draw(i(0, 4)), draw(win), draw(offc), draw(wi), draw(i(0, 4))]
        if k < 14:
            return ["del", draw(win), draw(offc), draw(wi)]
        if k < 15:
            return ["delp", draw(win), draw(offc), draw(wi)]
        if k < 16:
            return ["dels", draw(win), draw(offc)]
        if k < 18:
            return ["in", draw(win), draw(offc), draw(wi)]
        return ["exp", draw(i(0, 4))]
    return op()


def history_strategy(maxlen=30):
    from hypothesis import strategies as st

    @st.composite
    def hist(draw):
        cfg = ["cfg", draw(st.integers(0, 2)), draw(st.integers(0, NWIN - 1)),
               draw(st.sampled_from([DELTA, DELTA, DELTA - 2, DELTA + 3, 4, 2 * DELTA - 3]))]
        n = draw(st.integers(6, maxlen))
        ops = _op_strategy()
        return [cfg] + [draw(ops) for _ in range(n)]
    return hist()


_rec = {}


def recorder():
    """instrument the engine's default simplifier once: every effective rewrite can be logged"""
    if "rec" not in _rec:
        from miasm.expression.simplifications import expr_simp_explicit
        from vlib import simplab
        rec = simplab.Recorder()
        rec.enabled = False
        simplab.instrument(expr_simp_explicit, rec)
        _rec["rec"] = rec
        _rec["simp"] = expr_simp_explicit
    return _rec["rec"], _rec["simp"]


def run_ops(ops):
    """-> ([(bucket, detail)], sim)"""
    recorder()
    sim = Sim()
    out = []
    try:
        for op in ops:
            sim.step(op)
    except CheckFailure as f:
        out.append((f.bucket, f.detail))
    return list(sim.soft.items()) + out, sim


def simplifier_rule(ops):
    """Re-run the history with a cold simplifier cache, logging every rewrite: a rewrite step whose two sides
    evaluate differently under one of the valuations is a simplifier defect -> 'rule:shape', else None.
    (The store itself relies on the simplifier, so 'passes with a pass-free simplifier' proves nothing here.)"""
    from vlib import simplab
    rec, simp = recorder()
    simp.cache.clear()
    rec.reset()
    rec.enabled = True
    try:
        _, sim = run_ops(ops)
    finally:
        rec.enabled = False
    steps = list(rec.steps)
    rec.reset()
    if sim.engine is None:
        return None
    for k in range(NVAL):
        try:
            r = simplab.attribute(steps, sim.env_init(k))
        except Exception:
            r = None
        if r:
            return r
    return None


def judge(ops):
    """-> ([(bucket, detail)], sim); value discrepancies caused by a value-changing rewrite of the simplifier
    are re-bucketed as via-simplifier:rule:..."""
    fails, sim = run_ops(ops)
    if not fails:
        return fails, sim
    out = []
    rule = False
    for bucket, detail in fails:
        if bucket.startswith(("read", "export-value")):
            if rule is False:
                rule = simplifier_rule(ops)
            if rule:
                bucket = "via-simplifier:rule:%s:%s" % (rule, bucket.split(":")[0])
        out.append((bucket, detail))
    return out, sim


class C13(Check):
    pid = "C13"
    rule = ("Hypothesis histories: address size 16/32/64 (msp430/x86_32/x86_64 lifter) then 1..30 ops among write "
            "(6 documented entry points; value = int, identifier, slice, reads of current memory, compositions, the "
            "previous value again, a read through a pointer of another width; "
            "pointer written in 5 syntactic forms), read (5 entry points), del, delete_partial, del_mem_above_stack, "
            "containment, export/import (get_state/set_state, .state, constructor, symbols.copy, SymbolMngr(init)); "
            "addresses = window (integer base at 0 and 0x1000, a, a+2^(n-1), b, a+b, c) + delta in -14..14, widths "
            "1..8 bytes; after each mutation every byte of every touched window and wide reads around the cell are "
            "compared with a byte model under 3 valuations (hash memory for untouched cells). Non-trivial: history "
            "with a partially overlapping write or a wrap-around access to stored bytes; distinct by op list. A wrong "
            "answer of a query (read, containment) is recorded and the history goes on.")
    assumptions = ["memory is little-endian and byte aligned (documented limits of MemArray)",
                   "pointers given to the non-evaluating entry points (symbols.write, mem_write, ...) are in the "
                   "engine's canonical base+int form; other forms only go through the evaluating entry points",
                   "distinct symbolic bases do not alias: the three valuations keep the windows >= 0x100 bytes apart",
                   "a byte written with its own original value may or may not be reported as stored"]
    level_text = ("randomized model-based testing of the symbolic byte store against a concrete byte map, under three "
                  "concrete valuations, with wrap-around, overlap and export/import strata measured")
    technique = "model-based stateful property testing (Hypothesis histories, byte-map model, reference evaluator)"

    def nshards(self, tier):
        return 48 if tier == "thorough" else 16

    def run_shard(self, tier, seed, shard, nshards):
        res = ShardResult()
        n = 1000 if tier == "thorough" else 120
        cnt = [0]

        def one(ops):
            cnt[0] += 1
            r, sim = judge(ops)
            nt = ("overlap" in sim.stats or "wrap" in sim.stats) and "write" in sim.stats
            res.case(nontrivial_key=repr(ops) if nt else None,
                     sample={"ops": ops} if nt and cnt[0] % 37 == 1 else None)
            res.counters["history_steps"] += len(ops)
            res.counters["addrsize:%d" % getattr(sim, "asz", 0)] += 1
            for s in sim.stats:
                res.counters["histories_with:" + s] += 1
            for b, d in r:
                res.fail(b, d, {"ops": ops})
        hyp.survey(history_strategy(), n, seed, one)
        return res

    def replay(self, case):
        r, _ = judge(case["ops"])
        if not r:
            return None
        want = case.get("_bucket")
        for b, d in r:
            if b == want:
                return Failure(b, d, case)
        return Failure(r[0][0], r[0][1], case)

    def shrink(self, failure, tier):
        ops = failure.case["ops"]
        cfg, rest = ops[:1], ops[1:]

        def still(cand):
            r, _ = judge(cfg + cand)
            return any(b == failure.bucket for b, _ in r)
        small = hyp.ddmin_list(rest, still, budget=300)
        r, _ = judge(cfg + small)
        for b, d in r:
            if b == failure.bucket:
                return Failure(b, d, {"ops": cfg + small})
        return failure


CHECK = C13()
