"""C49 — a faulting instruction has no effect and leaves PC on it (fault enumeration).

Finite product, enumerated completely in both tiers:
  backend {python, gcc} x arch {x86_32, x86_64, arml, mips32l} x instruction template with a memory operand
  x position of that instruction in its translated block {first, middle, last}
  x fault {unmapped, no-permission, straddling into unmapped, straddling into no-permission}
(the thorough tier adds a "warm" variant: the block was translated and run fault-free once in the same jitter).

Per case: (A) reference run on fully mapped read+write memory with a breakpoint on the instruction -> state just
before it, and the final state of the fault-free run; (B) faulting run: must end in JitterException with
EXCEPT_ACCESS_VIOL, jitter.pc on the instruction, registers and memory equal to the state before it;
(C) clear the exception flags, map the page / restore the permission, continue_run(): must reach the sentinel with
the final state of the fault-free run.
"""
from vlib.runner import Check, ShardResult, Failure
from vlib import jitlab
from checks import c20

ACCESS_VIOL = 1 << 14
PG = 0x100
STEP_LIMIT = 2000

# (name, kind, size, [lines before], faulting line, [lines after], address register, how the address is used)
#   kind: r / w / rw (which access faults matter);  mode: "reg" (register holds A), "push" (stack pointer := A + size),
#   "pop" (stack pointer := A)
T = {}
T["x86_32"] = dict(
    areg="EBX", fill=["MOV ESI, 0x1111", "ADD EDX, 7", "INC ESI", "ADD EDX, EDX"], ret=["RET"],
    jmp="JMP fault", insns=[
        ("load32", "r", 4, [], "MOV EAX, DWORD PTR [EBX]", [], "reg"),
        ("store32", "w", 4, [], "MOV DWORD PTR [EBX], ECX", [], "reg"),
        ("rmw32", "rw", 4, [], "ADD DWORD PTR [EBX], ECX", [], "reg"),
        ("load16zx", "r", 2, [], "MOVZX EAX, WORD PTR [EBX]", [], "reg"),
        ("store8", "w", 1, [], "MOV BYTE PTR [EBX], CL", [], "reg"),
        ("xchg32", "rw", 4, [], "XCHG DWORD PTR [EBX], ECX", [], "reg"),
        ("cmp32", "r", 4, [], "CMP DWORD PTR [EBX], ECX", [], "reg"),
        ("inc16", "rw", 2, [], "INC WORD PTR [EBX]", [], "reg"),
        ("push32", "w", 4, ["MOV EDI, ESP", "MOV ESP, EBX"], "PUSH ECX", ["MOV ESP, EDI"], "push"),
        ("pop32", "r", 4, ["MOV EDI, ESP", "MOV ESP, EBX"], "POP EAX", ["MOV ESP, EDI"], "pop"),
        ("movsd-src", "r", 4, ["MOV EDI, EBP", "MOV EAX, ESI", "MOV ESI, EBX"], "MOVSD", ["MOV ESI, EAX"], "reg"),
        ("stosd", "w", 4, ["MOV EDI, EBX"], "STOSD", [], "reg"),
        ("jmp-mem", "r", 4, [], "JMP DWORD PTR [EBX]", [], "reg"),
    ])
T["x86_64"] = dict(
    areg="RBX", fill=["MOV ESI, 0x1111", "ADD EDX, 7", "INC ESI", "ADD EDX, EDX"], ret=["RET"],
    jmp="JMP fault", insns=[
        ("load64", "r", 8, [], "MOV RAX, QWORD PTR [RBX]", [], "reg"),
        ("store64", "w", 8, [], "MOV QWORD PTR [RBX], RCX", [], "reg"),
        ("rmw64", "rw", 8, [], "ADD QWORD PTR [RBX], RCX", [], "reg"),
        ("load32", "r", 4, [], "MOV EAX, DWORD PTR [RBX]", [], "reg"),
        ("store32", "w", 4, [], "MOV DWORD PTR [RBX], ECX", [], "reg"),
        ("xchg64", "rw", 8, [], "XCHG QWORD PTR [RBX], RCX", [], "reg"),
        ("push64", "w", 8, ["MOV RDI, RSP", "MOV RSP, RBX"], "PUSH RCX", ["MOV RSP, RDI"], "push"),
        ("pop64", "r", 8, ["MOV RDI, RSP", "MOV RSP, RBX"], "POP RAX", ["MOV RSP, RDI"], "pop"),
        ("jmp-mem", "r", 8, [], "JMP QWORD PTR [RBX]", [], "reg"),
    ])
T["arml"] = dict(
    areg="R4", fill=["MOV R5, 0x11", "ADD R6, R6, 7", "ADD R5, R5, 1", "ADD R6, R6, R6"], ret=["BX LR"],
    jmp="B fault", insns=[
        ("ldr", "r", 4, [], "LDR R0, [R4]", [], "reg"),
        ("str", "w", 4, [], "STR R1, [R4]", [], "reg"),
        ("ldrb", "r", 1, [], "LDRB R0, [R4]", [], "reg"),
        ("ldrh", "r", 2, [], "LDRH R0, [R4]", [], "reg"),
        ("strh", "w", 2, [], "STRH R1, [R4]", [], "reg"),
        ("ldr-postindex", "r", 4, [], "LDR R0, [R4], 4", [], "reg"),
        ("str-preindex", "w", 4, ["SUB R4, R4, 4"], "STR R1, [R4, 4]!", [], "reg"),
        ("ldmia-wb", "r", 8, [], "LDMIA R4!, {R0, R1}", [], "reg"),
        ("stmdb-wb", "w", 8, ["ADD R4, R4, 8"], "STMDB R4!, {R0, R1}", [], "reg"),
        ("ldr-pc", "r", 4, [], "LDR PC, [R4]", [], "reg"),
    ])
T["mips32l"] = dict(
    areg="A3", fill=["ADDIU T0, ZERO, 0x11", "ADDIU T1, T1, 0x7", "ADDIU T0, T0, 0x1", "ADDU T1, T1, T1"],
    ret=["JR RA", "NOP"], jmp="B fault\n    NOP", insns=[
        ("lw", "r", 4, [], "LW V0, 0x0(A3)", [], "reg"),
        ("sw", "w", 4, [], "SW A1, 0x0(A3)", [], "reg"),
        ("lb", "r", 1, [], "LB V0, 0x0(A3)", [], "reg"),
        ("lhu", "r", 2, [], "LHU V0, 0x0(A3)", [], "reg"),
        ("lh", "r", 2, [], "LH V0, 0x0(A3)", [], "reg"),
        ("sh", "w", 2, [], "SH A1, 0x0(A3)", [], "reg"),
        ("sb", "w", 1, [], "SB A1, 0x0(A3)", [], "reg"),
    ])

POSITIONS = ["first", "middle", "last"]
FAULTS = ["unmapped", "noperm", "straddle-unmapped", "straddle-noperm"]
REGINIT = {
    "x86_32": {"ECX": 0x11223344, "EAX": 0x55667788, "EDX": 3, "EBP": None},
    "x86_64": {"RCX": 0x1122334455667788, "RAX": 0x99AABBCCDDEEFF00, "RDX": 3},
    "arml": {"R0": 0x55667788, "R1": 0x11223344, "R6": 3},
    "mips32l": {"A1": 0x11223344, "V0": 0x55667788, "T1": 3},
}

# the program-counter register is not part of the comparison with the pre-state (jitter.pc is checked instead; the
# backends refresh the register at different moments of a fault-free run)
PC_REG = {"x86_32": ("RIP",), "x86_64": ("RIP",), "arml": ("PC",), "mips32l": ("PC",)}

_asm = {}


def program(arch, insn, pos):
    """-> (code, labels, jit_maxline or None) or None if miasm cannot assemble it"""
    key = (arch, insn[0], pos)
    if key in _asm:
        return _asm[key]
    t = T[arch]
    name, kind, size, before, fline, after, mode = insn
    f = t["fill"]
    lines = ["main:"] + ["    " + x for x in f[:2] + before]
    nbefore = 2 + len(before)
    if pos == "first":
        lines.append("    " + t["jmp"])
    lines.append("fault:")
    lines.append("    " + fline)
    if name in ("jmp-mem", "ldr-pc"):
        lines.append("resume:")         # where the loaded code pointer leads
    lines += ["    " + x for x in after + f[2:] + t["ret"]]
    ml = None
    if pos == "last":
        ml = nbefore + 1
    try:
        code, labels = jitlab.assemble(arch, "\n".join(lines) + "\n", jitlab.layout(arch)["code"])
        _asm[key] = (code, labels, ml)
    except Exception as e:
        _asm[key] = None
    return _asm[key]


def pattern(n, salt):
    return bytes(((i * 7 + 3 + salt) & 0xff) for i in range(n))


def fault_access(kind, fault):
    """page access bits of the second page in the faulting run (None: page absent)"""
    if fault.endswith("unmapped"):
        return None
    if fault.endswith("noperm-r"):
        return 2               # write only: reads fault
    if kind == "r":
        return 2
    return 1                   # read only: writes fault


def case_layout(arch, insn, fault):
    lay = jitlab.layout(arch)
    d = lay["data"]
    size = insn[2]
    a = d + PG + 0x10 if not fault.startswith("straddle") else d + PG - size // 2
    return d, a


def build(case, phase):
    """phase: 'ref' (fully mapped, breakpoint on the instruction), 'fault' (faulting run + repair + resume)"""
    arch = case["arch"]
    insn = [i for i in T[arch]["insns"] if i[0] == case["insn"]][0]
    prog = program(arch, insn, case["pos"])
    if prog is None:
        return None
    code, labels, ml = prog
    lay = jitlab.layout(arch)
    d, a = case_layout(arch, insn, case["fault"])
    mode = insn[6]
    areg = T[arch]["areg"]
    aval = a + insn[2] if mode == "push" else a
    page1 = pattern(PG, 0)
    page2 = pattern(PG, 0x55)
    if insn[0] in ("jmp-mem", "ldr-pc"):
        # the loaded value is a code address: the instruction after the faulting one
        tgt = labels["resume"]
        w = 8 if arch == "x86_64" else 4
        blob = jitlab.pack(tgt, w, False)
        both = bytearray(page1 + page2)
        both[a - d:a - d + w] = blob
        page1, page2 = bytes(both[:PG]), bytes(both[PG:])
    acc2 = 3 if phase == "ref" else fault_access(insn[1], case["fault"])
    pages = [[d, 3, page1, "data"]]
    if acc2 is not None:
        pages.append([d + PG, acc2, page2, "data2"])
    scn = jitlab.call_scenario(arch, code, [], pages, code_addr=labels["__base__"], entry=labels["main"])
    regs = dict(REGINIT[arch])
    regs = {k: v for k, v in regs.items() if v is not None}
    if arch == "x86_32":
        regs["EBP"] = d + 0x20           # destination of MOVSD
    regs[areg] = aval
    scn["regs"].update(regs)
    scn["step_limit"] = STEP_LIMIT
    if ml:
        scn["options"] = {"jit_maxline": ml}
    sent = scn["script"][0]
    if phase == "ref":
        scn["script"] = [sent, ["bp", "F", labels["fault"], {"ret_at": {"1": "false"}}], ["init_run", labels["main"]],
                         ["cont"], ["snap", "pre"], ["cont"]]
        return scn
    script = [sent]
    if case.get("warm"):
        # translate and run once fault-free in this jitter, then take the page away / restrict it
        pages_ok = [p if p[3] != "data2" else [p[0], 3, p[2], p[3]] for p in scn["pages"]]
        if acc2 is None:
            pages_ok.append([d + PG, 3, page2.hex(), "data2"])
        scn["pages"] = pages_ok
        script += [["run", labels["main"]], ["reset"]]
        if acc2 is None:
            script.append(["rm_page", d + PG])
        else:
            script.append(["set_access", d + PG, acc2])
    script += [["init_run", labels["main"]], ["cont"], ["snap", "fault"], ["clear_exc"]]
    if acc2 is None:
        script.append(["add_page", d + PG, 3, page2.hex(), "data2"])
    else:
        script.append(["set_access", d + PG, 3])
    script += [["cont"]]
    scn["script"] = script
    return scn


def mem_view(snap):
    """-> dict address -> byte for every mapped byte"""
    out = {}
    for k, (acc, hexdata) in snap["mem"].items():
        base = int(k)
        for i, b in enumerate(bytes.fromhex(hexdata)):
            out[base + i] = b
    return out


def cmp_state(exp, got, ignore_regs=()):
    """exp, got: snapshots.  Memory is compared on the addresses mapped in `got`. -> list of differences"""
    out = []
    for k in sorted(exp["regs"]):
        if k in ignore_regs:
            continue
        if exp["regs"][k] != got["regs"].get(k):
            out.append("reg %s: expected %s, got %s" % (k, hex(exp["regs"][k]), hex(got["regs"].get(k, 0))))
    me, mg = mem_view(exp), mem_view(got)
    bad = [a for a in sorted(mg) if a in me and me[a] != mg[a]]
    if bad:
        out.append("mem %s..: %d bytes differ, expected %s got %s" % (
            hex(bad[0]), len(bad), bytes(me[a] for a in bad[:8]).hex(), bytes(mg[a] for a in bad[:8]).hex()))
    return out


def judge(lab, case):
    """-> None inconclusive | "ok" | "dropped:<why>" | (what, detail)"""
    backend = case["backend"]
    sref = build(case, "ref")
    if sref is None:
        return "dropped:assembler"
    ref = lab.run(sref, backend)
    got = lab.run(build(case, "fault"), backend)
    for o in (ref, got):
        if "setup_error" in o:
            raise RuntimeError("jitlab setup error: %s\n%s" % (o["setup_error"], o.get("tb")))
        if "timeout" in o:
            return None
    if "died" in ref:
        return "dropped:reference-died"
    rconts = [e for e in ref["events"] if e[0] == "cont"]
    if len(rconts) != 2 or rconts[0][1:3] != ["ret", False] or rconts[1][1:3] != ["ret", False]:
        return "dropped:reference-run:%s" % c20.term_desc(ref)
    pre = [e for e in ref["events"] if e[0] == "snap"][0][2]
    final = ref["final"]
    faddr = rconts[0][3]
    if "died" in got:
        return ("worker-died", "worker process died (%r)" % (got["died"],))
    conts = [e for e in got["events"] if e[0] == "cont"]
    if case.get("warm"):
        conts = conts[1:]
    snaps = [e for e in got["events"] if e[0] == "snap"]
    c1 = conts[0]
    # (B) the faulting run
    if c1[1] == "pyexc":
        return ("terminated:pyexc:%s@%s" % (c1[2][0], c1[2][1]),
                "the run ended with a Python exception instead of a reported fault: %s: %s" % (c1[2][0], c1[2][2]))
    if c1[1] == "ret":
        return ("no-fault-reported", "continue_run() returned %r at pc=%s: the access did not fault" % (c1[2], hex(c1[3])))
    if not (c1[2] & ACCESS_VIOL):
        return ("wrong-exception", "JitterException flags %s without ACCESS_VIOL" % c20.flag_names(c1[2]))
    if c1[3] != faddr:
        return ("pc-not-on-instruction", "after the fault jitter.pc = %s, the faulting instruction is at %s"
                % (hex(c1[3]), hex(faddr)))
    fs = snaps[0][2]
    if not (fs["vm_exc"] & ACCESS_VIOL):
        return ("flag-not-in-vm", "vm exception flags %s" % hex(fs["vm_exc"]))
    d = cmp_state(pre, fs, ignore_regs=PC_REG[case["arch"]])
    if d:
        regs = [x for x in d if x.startswith("reg")]
        what = "register-effect" if regs else "memory-effect"
        return (what, "state after the fault differs from the state before the instruction: " + "; ".join(d[:5]))
    # (C) resume
    c2 = conts[1]
    if c2[1] != "ret" or c2[2] is not False:
        return ("resume-fails", "after clearing the flags and repairing the mapping continue_run() ended with %s %r "
                "at pc=%s" % (c2[1], c2[2], hex(c2[3]) if isinstance(c2[3], int) else c2[3]))
    d = cmp_state(final, got["final"])
    if got["final"]["vm_exc"] or got["final"]["cpu_exc"]:
        d.append("exception flags left: vm %s cpu %s" % (hex(got["final"]["vm_exc"]), hex(got["final"]["cpu_exc"])))
    if d:
        return ("resume-state-differs", "final state after resuming differs from the fault-free run: " + "; ".join(d[:5]))
    return "ok"


def bucket_of(case, r):
    """backend | what went wrong | arch | instruction template | fault kind   (position / warm are in the detail)"""
    return "%s|%s|%s|%s|%s" % (case["backend"], r[0], case["arch"], case["insn"], case["fault"])


def product(tier):
    cases = []
    for arch in ("x86_32", "x86_64", "arml", "mips32l"):
        for insn in T[arch]["insns"]:
            for pos in POSITIONS:
                faults = list(FAULTS)
                if insn[1] == "rw":
                    faults += ["noperm-r", "straddle-noperm-r"]
                for fault in faults:
                    if fault.startswith("straddle") and insn[2] < 2:
                        continue
                    for backend in ("python", "gcc"):
                        warms = [False, True] if tier == "thorough" else [False]
                        for warm in warms:
                            cases.append(dict(arch=arch, insn=insn[0], pos=pos, fault=fault, backend=backend,
                                              warm=warm))
    return cases


class C49(Check):
    pid = "C49"
    level = "fault_enumeration"
    needs_build = True
    all_exhaustive = True
    rule = ("complete enumeration of backend {python,gcc} x arch {x86_32,x86_64,arml,mips32l} x memory-operand "
            "instruction templates (13/9/10/7: loads, stores, read-modify-write, sub-word, push/pop through a "
            "swapped stack pointer, string move/store, indirect jump, ARM post/pre-indexed and multiple transfers "
            "with write-back) x position in the translated block {first (jump target), middle, last (block cut by "
            "jit_maxline or the instruction is a branch)} x fault {unmapped, page lacking the permission, straddling "
            "into an unmapped page, straddling into a page lacking the permission; both flavours for "
            "read-modify-write}; thorough adds the warm variant (block translated and run fault-free once before "
            "the page is removed / restricted). Every case is non-trivial and distinct by construction.")
    assumptions = ["python and gcc backends only (llvmlite absent)",
                   "the state 'before the instruction' is observed on a fully mapped run stopped by a breakpoint on "
                   "that instruction (same backend); the fault-free final state likewise",
                   "'no permission' = page without PAGE_READ for loads, without PAGE_WRITE for stores",
                   "instructions miasm cannot assemble are dropped and counted"]
    level_text = "complete enumeration of the stated finite fault product on both available backends"
    technique = "exhaustive fault enumeration with a fault-free reference run per case"

    def nshards(self, tier):
        return 16

    def run_shard(self, tier, seed, shard, nshards):
        res = ShardResult()
        if not jitlab.shard_enabled(shard):
            res.dropped["shard-not-selected(VERIF_ONLY_SHARDS)"] += 1
            res.exhaustive["all-shards-run"] = False
            return res
        cases = product(tier)
        # all cases of one (arch, instruction, position) program go to the same shard: its translated blocks are
        # compiled once (the gcc block cache is private to the shard's worker)
        progs = sorted(set((c["arch"], c["insn"], c["pos"]) for c in cases))
        owner = {k: i % nshards for i, k in enumerate(progs)}
        mine = [c for c in cases if owner[(c["arch"], c["insn"], c["pos"])] == shard]
        res.exhaustive["backend x arch x instruction x position x fault"] = True
        with jitlab.JitLab(time_limit=600 if tier == "thorough" else 300) as lab:
            for case in mine:
                r = judge(lab, case)
                if r is None:
                    res.dropped["time-limit"] += 1
                    res.exhaustive["backend x arch x instruction x position x fault"] = False
                    continue
                if isinstance(r, str) and r.startswith("dropped:"):
                    res.dropped[r[8:]] += 1
                    continue
                res.evaluations += 1
                res.nontrivial_extra += 1
                res.counters["arch:" + case["arch"]] += 1
                res.counters["fault:" + case["fault"]] += 1
                res.counters["position:" + case["pos"]] += 1
                res.counters["backend:" + case["backend"]] += 1
                if len(res.samples) < 3 and case["fault"].startswith("straddle"):
                    res.samples.append(case)
                if r != "ok":
                    bucket = bucket_of(case, r)
                    res.fail(bucket, r[1] + " [%r]" % (case,), case)
            if lab.stats["timeout"]:
                res.dropped["worker-time-limit"] += lab.stats["timeout"]
        return res

    def replay(self, case):
        with jitlab.shared() as lab:
            r = judge(lab, case)
        if r is None or isinstance(r, str):
            return None
        return Failure(bucket_of(case, r), r[1], case)


CHECK = C49()
