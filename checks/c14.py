"""C14 — lifted IR is well-formed for every decodable instruction.

Inputs: vlib.archlab strata (curated + opcode enumeration, seed-independent; small Hypothesis stratum) for every
architecture that has a lifter.  Each decoded instruction is placed at an address (instr.offset), its branch
operands are resolved as the disassembly engine does (``dstflow2label``) and it is lifted with
``Machine(name).lifter(loc_db)`` (and ``lifter_model_call`` for sub-calls) through ``add_instr_to_ircfg``.
Outcome must be either *unsupported* (NotImplementedError / the architecture's unknown-mnemonic error) or an IRCFG
whose blocks satisfy the statement; any other exception is a violation.
"""
import traceback

from vlib.runner import Check, ShardResult, Failure
from vlib import archlab
from checks import c15

PARTS_Q = {"x86_32": 2, "x86_64": 3, "x86_16": 1, "arml": 2, "armb": 1, "armtl": 4, "armtb": 1, "aarch64l": 4,
           "aarch64b": 1, "mips32l": 1, "mips32b": 2, "ppc32b": 2, "msp430": 3, "mepb": 2, "mepl": 1}
PARTS_T = {"x86_32": 40, "x86_64": 48, "x86_16": 32, "arml": 16, "armb": 12, "armtl": 12, "armtb": 10,
           "aarch64l": 14, "aarch64b": 12, "mips32l": 6, "mips32b": 6, "ppc32b": 4, "msp430": 8, "mepb": 6,
           "mepl": 6}

_ctx = {}


def context(arch):
    """(Machine, allowed register ids) per architecture"""
    if arch.name not in _ctx:
        from miasm.analysis.machine import Machine
        from miasm.expression.expression import ExprId
        machine = Machine(arch.name)
        regs = machine.mn.regs
        allowed = set()
        for attr in dir(regs):
            v = getattr(regs, attr)
            if isinstance(v, ExprId):
                allowed.add(v)
            elif isinstance(v, (list, tuple, set, frozenset)):
                for x in v:
                    if isinstance(x, ExprId):
                        allowed.add(x)
            elif isinstance(v, dict):
                for x in list(v.keys()) + list(v.values()):
                    if isinstance(x, ExprId):
                        allowed.add(x)
        _ctx[arch.name] = (machine, allowed)
    return _ctx[arch.name]


def addresses(arch, data):
    """deterministic address for a sample (a function of its bytes)"""
    width = {"x86_16": 16, "x86_64": 64, "aarch64l": 64, "aarch64b": 64, "msp430": 16}.get(arch.name, 32)
    top = (1 << width)
    align = max(arch.unit, 1) if arch.family != "x86" else 1
    if arch.family in ("arm", "aarch64", "mips32", "ppc32"):
        align = 4
    cands = [0, 0x1000, 0x401000 % top, top - 0x100, top // 2, top // 2 - 0x40, 0x7F00 % top, 0x12345670 % top]
    a = cands[archlab._h("addr", arch.name, data.hex()) % len(cands)]
    return a - a % align


def _where(ex):
    """innermost frame inside miasm/arch (the semantic function), else innermost miasm frame"""
    tb = traceback.extract_tb(ex.__traceback__)
    for pat in ("/miasm/arch/", "/miasm/"):
        for fr in reversed(tb):
            if pat in fr.filename:
                return fr.filename.split("/miasm/")[-1], fr.name
    return "?", "?"


def is_unsupported(ex, instr):
    if isinstance(ex, NotImplementedError):
        return True
    fname, func = _where(ex)
    if isinstance(ex, ValueError) and str(ex).startswith("unknown mnemo"):
        return True
    if isinstance(ex, KeyError) and fname.endswith("/sem.py") and func in ("get_ir", "get_mnemo_expr"):
        key = ex.args[0] if ex.args else None
        if key in (instr.name, instr.name.lower()):
            return True
    return False


def leaves(dst):
    """location / constant leaves reachable through the ExprCond structure of an IRDst value"""
    out = []
    todo = [dst]
    while todo:
        e = todo.pop()
        if e.is_cond():
            todo.append(e.src1)
            todo.append(e.src2)
        elif e.is_loc() or e.is_int():
            out.append(e)
    return out


def all_ids(e, acc, alien=None):
    """collect the ExprId leaves of e; nodes that are not value expressions (e.g. an ExprAssign used as a value) go
    to `alien`"""
    from miasm.expression.expression import (ExprId, ExprInt, ExprLoc, ExprMem, ExprOp, ExprSlice, ExprCompose,
                                             ExprCond)
    value_nodes = (ExprId, ExprInt, ExprLoc, ExprMem, ExprOp, ExprSlice, ExprCompose, ExprCond)

    def visit(x):
        if isinstance(x, ExprId):
            acc.add(x)
        elif alien is not None and not isinstance(x, value_nodes):
            alien.append(x)
        return x
    e.visit(visit)


def check_ircfg(arch, lifter, ircfg, allowed):
    """-> list of (kind, detail)"""
    fails = []
    irdst = lifter.IRDst
    loc_db = lifter.loc_db
    for loc_key, blk in ircfg.blocks.items():
        if blk.loc_key != loc_key:
            fails.append(("block-key", "ircfg.blocks[%s] holds block %s" % (loc_key, blk.loc_key)))
        ndst = 0
        dstval = None
        for ab in blk:
            for dst, src in ab.iteritems():
                if dst.size != src.size:
                    fails.append(("width", "%s (width %d) = %s (width %d)" % (dst, dst.size, src, src.size)))
                if not (dst.is_id() or dst.is_mem()):
                    fails.append(("destination-kind", "assignment to %s (%s)" % (dst, type(dst).__name__)))
                if dst.is_id() and dst.name == "IRDst":
                    ndst += 1
                    dstval = src
                    if dst != irdst:
                        fails.append(("irdst-width", "IRDst written with width %d, the lifter's IRDst has %d"
                                      % (dst.size, irdst.size)))
                ids = set()
                alien = []
                all_ids(dst, ids, alien)
                all_ids(src, ids, alien)
                for x in alien[:1]:
                    fails.append(("statement-as-value", "%s = %s contains %s (%s), which is no value expression"
                                  % (dst, src, x, type(x).__name__)))
                for i in ids:
                    if i != irdst and i not in allowed:
                        fails.append(("foreign-register", "%s (width %d) in %s = %s is no register of %s.regs"
                                      % (i, i.size, dst, src, arch.family)))
        if ndst != 1:
            fails.append(("irdst-count", "block %s assigns IRDst %d times" % (loc_db.pretty_str(loc_key), ndst)))
            continue
        if dstval.size != irdst.size:
            fails.append(("irdst-width", "IRDst = %s has width %d, expected %d" % (dstval, dstval.size, irdst.size)))
        succ = set(ircfg.successors(loc_key))
        for leaf in leaves(dstval):
            if leaf.is_loc():
                tgt = leaf.loc_key
            else:
                tgt = loc_db.get_offset_location(int(leaf))
            if tgt is None or tgt not in succ:
                fails.append(("missing-edge", "block %s: IRDst = %s but no edge to %s"
                              % (loc_db.pretty_str(loc_key), dstval, leaf)))
    return fails


def lift_once(arch, data, addr, variant):
    """variant: 'label' (branch operands resolved with dstflow2label, lifter), 'raw' (unresolved operands, lifter),
    'model-call' (resolved, lifter_model_call).  -> (status, instr, info, [(kind, detail)])
    status: ok / unsupported / undecodable / decoder-exception"""
    from miasm.core.locationdb import LocationDB
    st, instr = archlab.decode(arch, data)
    if st != "ok":
        return st, instr, None, []
    machine, allowed = context(arch)
    loc_db = LocationDB()
    instr.offset = addr
    desc = "%s %s @0x%x [%s]" % (arch.name, bytes(data[:instr.l]).hex(), addr, variant)
    try:
        if variant != "raw" and instr.dstflow():
            instr.dstflow2label(loc_db)
    except Exception as ex:
        return "ok", instr, None, [("dstflow2label-exception:%s@%s:%s" % ((type(ex).__name__,) + _where(ex)),
                                    "%s %s: dstflow2label raised %r" % (desc, c15.fmt_instr(instr), ex))]
    lifter = (machine.lifter_model_call if variant == "model-call" else machine.lifter)(loc_db)
    ircfg = lifter.new_ircfg()
    try:
        if variant == "model-call" and instr.delayslot:
            # the call model of a delay-slot architecture takes the call together with its delay-slot instruction
            from miasm.core.asmblock import AsmBlock
            st2, slot = archlab.decode(arch, b"\x00" * instr.l)
            if st2 != "ok":
                return "unsupported", instr, None, []
            slot.offset = addr + instr.l
            block = AsmBlock(loc_db, loc_db.get_or_create_offset_location(addr))
            block.lines = [instr, slot]
            lifter.add_asmblock_to_ircfg(block, ircfg)
        else:
            lifter.add_instr_to_ircfg(instr, ircfg)
    except Exception as ex:
        if is_unsupported(ex, instr):
            return "unsupported", instr, None, []
        return "ok", instr, None, [("lift-exception:%s@%s:%s" % ((type(ex).__name__,) + _where(ex)),
                                    "%s %s: lifting raised %r" % (desc, c15.fmt_instr(instr), ex))]
    try:
        fails = check_ircfg(arch, lifter, ircfg, allowed)
    except Exception as ex:
        return "ok", instr, None, [("inspect-exception:%s@%s:%s" % ((type(ex).__name__,) + _where(ex)),
                                    "%s %s: walking the IRCFG raised %r" % (desc, c15.fmt_instr(instr), ex))]
    nblocks = len(ircfg.blocks)
    has_mem = False
    cond = False
    for blk in ircfg.blocks.values():
        if blk.dst is not None and blk.dst.is_cond():
            cond = True
        for ab in blk:
            for dst, src in ab.iteritems():
                if dst.is_mem() or any(x.is_mem() for x in src.get_r(mem_read=True)):
                    has_mem = True
    info = {"blocks": nblocks, "mem": has_mem, "cond": cond}
    out = []
    seen = set()
    for kind, detail in fails:
        if kind in seen:
            continue
        seen.add(kind)
        out.append((kind, "%s %s: %s" % (desc, c15.fmt_instr(instr), detail)))
    return "ok", instr, info, out


def variants_for(instr_probe):
    v = ["label"]
    try:
        if instr_probe.dstflow():
            v.append("raw")
        if instr_probe.is_subcall():
            v.append("model-call")
    except Exception:
        pass
    return v


class C14(c15.RoundTripCheck):
    pid = "C14"
    parts_q = PARTS_Q
    parts_t = PARTS_T
    stride_q = {"x86_16": 2, "armb": 4, "armtb": 6, "aarch64b": 4, "mips32l": 4, "mepl": 4}
    nrand_q = 160
    nrand_t = 40000
    arch_names = [n for n in archlab.ARCH_NAMES if archlab.ARCHS[n].lifter]
    rule = ("byte strata of vlib.archlab (curated + opcode enumeration, seed-independent; small Hypothesis stratum) "
            "for x86 16/32/64, arm/thumb l/b, aarch64 l/b, mips32 l/b, ppc32, msp430, mep l/b. Each decodable sample "
            "gets an address derived from its bytes (0, 0x1000, mid and top of the address space ...), branch "
            "operands resolved with dstflow2label (plus the unresolved form for branches and lifter_model_call for "
            "sub-calls) and is lifted with add_instr_to_ircfg. Unsupported = NotImplementedError / unknown-mnemonic "
            "error. Judged on every block: equal widths, ExprId/ExprMem destinations, exactly one IRDst of the "
            "lifter's width, ExprIds from the architecture's regs module, an edge for every ExprLoc/ExprInt leaf of "
            "IRDst. Non-trivial: lifted instruction with a memory access, a conditional IRDst or extra blocks; "
            "distinct by (architecture, mode, instruction bytes).")
    assumptions = ["indirect next destinations (register / memory) are legal; only location and constant leaves "
                   "need edges",
                   "a register 'belongs to the architecture' when its ExprId is defined in the arch's regs module "
                   "(module attributes, lists and dicts of ExprId)",
                   "KeyError on the mnemonic raised by the semantic-table lookup (get_ir/get_mnemo_expr) and "
                   "ValueError('unknown mnemo') are the unknown-mnemonic errors"]
    level_text = ("every decodable sample of an opcode-space enumeration plus curated and random bytes lifted and the "
                  "resulting IRCFG inspected structurally")
    technique = "structural invariant checking of lifter output over enumerated and random machine code"

    def begin(self, res, arch, tier):
        # some semantic functions print() warnings ("implemented as NOP"); keep the worker's output clean
        import os
        import sys
        self._saved_stdout = sys.stdout
        sys.stdout = open(os.devnull, "w")

    def end(self, res, arch, tier):
        import sys
        sys.stdout.close()
        sys.stdout = self._saved_stdout

    def one(self, res, arch, stratum, data, state):
        st, probe = archlab.decode(arch, data)
        if st == "undecodable":
            res.dropped["bytes miasm does not decode (outside the quantifier)"] += 1
            return
        if st != "ok":
            res.dropped["decoder raised %s (no instruction obtained)" % type(probe).__name__] += 1
            return
        key = bytes(data[:probe.l])
        if key in state["seen"]:
            return
        state["seen"].add(key)
        addr = addresses(arch, key)
        nt = None
        unsupported = False
        for variant in variants_for(probe):
            st, instr, info, fails = lift_once(arch, data, addr, variant)
            if st == "unsupported":
                unsupported = True
                continue
            if info and (info["mem"] or info["cond"] or info["blocks"] > 1):
                nt = (arch.name, key.hex())
            for kind, detail in fails:
                res.fail(archlab.bucket(arch, probe.name, kind), detail,
                         {"arch": arch.name, "hex": data.hex(), "addr": addr, "variant": variant})
        if unsupported:
            res.counters["unsupported:%s" % arch.name] += 1
            res.counters["unsupported-mnemonic:%s:%s" % (arch.family, probe.name)] += 1
        res.counters["lifted:%s:%s" % (arch.name, stratum)] += 1
        sample = None
        if nt and not res.samples and len(state["seen"]) > 40:
            sample = {"arch": arch.name, "hex": key.hex(), "addr": addr, "text": str(probe)}
        res.case(nontrivial_key=nt, sample=sample)

    def replay(self, case):
        arch = archlab.ARCHS[case["arch"]]
        archlab.mn_of(arch)
        archlab.quiet_miasm_logs()
        st, instr, info, fails = lift_once(arch, bytes.fromhex(case["hex"]), case["addr"], case["variant"])
        if not fails:
            return None
        want = case.get("_bucket")
        for kind, d in fails:
            b = archlab.bucket(arch, instr.name, kind)
            if want is None or b == want:
                return Failure(b, d, case)
        return Failure(archlab.bucket(arch, instr.name, fails[0][0]), fails[0][1], case)

    def shrink(self, failure, tier):
        arch = archlab.ARCHS[failure.case["arch"]]
        st, instr = archlab.decode(arch, bytes.fromhex(failure.case["hex"]))
        if st != "ok":
            return failure
        small = dict(failure.case, hex=bytes.fromhex(failure.case["hex"])[:instr.l].hex(), _bucket=failure.bucket)
        for addr in (0, failure.case["addr"]):
            c = dict(small, addr=addr)
            r = self.replay(c)
            if r is not None and r.bucket == failure.bucket:
                return r
        return failure

    def extra_evidence(self, m):
        uns = {}
        for k, v in m.counters.items():
            if k.startswith("unsupported-mnemonic:"):
                _p, fam, name = k.split(":", 2)
                uns.setdefault(fam, []).append(name)
        return {"unsupported_mnemonics": dict((f, sorted(set(v))) for f, v in uns.items())}


CHECK = C14()
