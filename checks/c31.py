"""C31 — recursive disassembly yields a well-formed control-flow graph.

Generator: byte buffers = Hypothesis random bytes, hand-encoded template code (plain instructions, short/near
jumps, conditional jumps, calls, returns whose targets are chosen among instruction starts *and* bytes in the
middle of instructions, so blocks get split and instructions overlap), byte-mutated templates, and clang-compiled
C functions (vlib.ccorpus); x start address x options (dont_dis, split_dis, lines_wd, blocs_wd, follow_call,
dontdis_retcall) for x86_32, arml, x86_64, armtl, aarch64l, mips32l, ppc32b, msp430.

Oracle: structural validity of the returned AsmCFG against single-instruction decoding (mn.dis) and the
instruction's own flow predicates (breakflow/splitflow/dstflow/is_subcall/getdstflow), exactly the clauses of
the statement; bbl_simplifier judged on the instruction-level graph (instruction offsets + "can directly
follow" edges), compared after contracting the jumps whose only destination is one block.
"""
import os
import shutil
import struct
import tempfile

from vlib.runner import Check, ShardResult, Failure

ARCHS = ["x86_32", "arml", "x86_64", "armtl", "aarch64l", "mips32l", "ppc32b", "msp430"]
C_NEXT, C_TO = "c_next", "c_to"

_state = {}


def ctx(arch):
    if arch not in _state:
        import logging
        import warnings
        warnings.simplefilter("ignore")
        from miasm.analysis.machine import Machine
        m = Machine(arch)
        for n in ("asmblock", "cpuhelper", "x86_arch", "armdis", "mips32dis", "msp430dis", "aarch64dis", "ppcdis"):
            logging.getLogger(n).setLevel(logging.CRITICAL)
        _state[arch] = m
    return _state[arch]


# ---------------------------------------------------------------------------------------------
# template code (hand encoded, independent of miasm)

def _w32le(*ws):
    return [struct.pack("<I", w) for w in ws]


def _w32be(*ws):
    return [struct.pack(">I", w) for w in ws]


def _w16le(*ws):
    return [struct.pack("<H", w) for w in ws]


PLAIN = {
    "x86_32": [b"\x90", b"\x40", b"\x31\xc0", b"\x55", b"\x89\xe5", b"\x83\xc0\x01", b"\x39\xd8", b"\x85\xc0",
               b"\x8d\x44\x88\x04", b"\xb8\x90\x90\xeb\x02", b"\xb9\x31\xc0\xc3\x90", b"\x05\x40\x40\x40\x40",
               b"\x5d", b"\xf3\x90", b"\x66\x90"],
    "x86_64": [b"\x90", b"\xff\xc0", b"\x31\xc0", b"\x55", b"\x48\x89\xe5", b"\x48\x83\xc0\x01", b"\x39\xd8",
               b"\x85\xc0", b"\x8d\x44\x88\x04", b"\xb8\x90\x90\xeb\x02", b"\xb9\x31\xc0\xc3\x90",
               b"\x05\x40\x41\x90\x90", b"\x5d", b"\x48\x8b\x05\x10\x00\x00\x00"],
    "arml": _w32le(0xE1A00001, 0xE2800001, 0xE1500001, 0xE5D03000, 0xE92D4030, 0xE0233002, 0xE3A000FF, 0x01A00001),
    "armtl": _w16le(0x4608, 0x3001, 0x4288, 0xB510, 0x1C40, 0x2000, 0x6801, 0xBF00),
    "aarch64l": _w32le(0xAA0103E0, 0x91000400, 0xEB01001F, 0xF9400001, 0xD503201F, 0x8B010000, 0xF9000001),
    "mips32l": _w32le(0x24040010, 0x24A50001, 0x00000000, 0x00851021, 0x8FA80004, 0xAFBF0010, 0x3C041234),
    "ppc32b": _w32be(0x38600001, 0x7C632214, 0x7C0802A6, 0x60000000, 0x80610008, 0x90610008),
    "msp430": _w16le(0x4104, 0x5B0F, 0x4318, 0x8F01, 0x4303) + [struct.pack("<HH", 0x403F, 0x4A96)],
}

# kind -> size in bytes
SIZES = {
    "x86_32": dict(jmp=2, jmpn=5, jcc=2, jccn=6, call=5, ret=1, loop=2),
    "x86_64": dict(jmp=2, jmpn=5, jcc=2, jccn=6, call=5, ret=1, loop=2),
    "arml": dict(jmp=4, jcc=4, call=4, ret=4),
    "armtl": dict(jmp=2, jcc=2, call=4, ret=2, cbz=2),
    "aarch64l": dict(jmp=4, jcc=4, call=4, ret=4, cbz=4),
    "mips32l": dict(jmp=4, jmpn=4, jcc=4, call=4, ret=4),
    "ppc32b": dict(jmp=4, jcc=4, call=4, ret=4),
    "msp430": dict(jmp=2, jcc=2, call=4, ret=2),
}


def _enc(arch, kind, pos, tgt, cc):
    """encode a transfer of `kind` located at byte `pos` going to byte `tgt`"""
    if arch in ("x86_32", "x86_64"):
        if kind == "jmp":
            return bytes([0xEB, (tgt - pos - 2) & 0xff])
        if kind == "jmpn":
            return b"\xe9" + struct.pack("<I", (tgt - pos - 5) & 0xffffffff)
        if kind == "jcc":
            return bytes([0x70 | (cc & 15), (tgt - pos - 2) & 0xff])
        if kind == "jccn":
            return bytes([0x0F, 0x80 | (cc & 15)]) + struct.pack("<I", (tgt - pos - 6) & 0xffffffff)
        if kind == "call":
            return b"\xe8" + struct.pack("<I", (tgt - pos - 5) & 0xffffffff)
        if kind == "loop":
            return bytes([0xE0 | (cc & 3), (tgt - pos - 2) & 0xff])
        return b"\xc3"
    if arch == "arml":
        rel = ((tgt - pos - 8) >> 2) & 0xffffff
        if kind == "jmp":
            return struct.pack("<I", 0xEA000000 | rel)
        if kind == "jcc":
            return struct.pack("<I", ((cc % 14) << 28) | 0x0A000000 | rel)
        if kind == "call":
            return struct.pack("<I", 0xEB000000 | rel)
        return struct.pack("<I", [0xE12FFF1E, 0xE8BD8030, 0xE1A0F00E][cc % 3])
    if arch == "armtl":
        rel = (tgt - pos - 4) >> 1
        if kind == "jmp":
            return struct.pack("<H", 0xE000 | (rel & 0x7ff))
        if kind == "jcc":
            return struct.pack("<H", 0xD000 | ((cc % 14) << 8) | (rel & 0xff))
        if kind == "cbz":
            r = rel & 0x3f
            return struct.pack("<H", 0xB100 | ((cc & 1) << 11) | ((r >> 5) << 9) | ((r & 0x1f) << 3) | (cc & 7))
        if kind == "call":
            off = (tgt - pos - 4)
            s = (off >> 24) & 1
            i1 = (off >> 23) & 1
            i2 = (off >> 22) & 1
            j1 = (~(i1 ^ s)) & 1
            j2 = (~(i2 ^ s)) & 1
            hi = 0xF000 | (s << 10) | ((off >> 12) & 0x3ff)
            lo = 0xD000 | (j1 << 13) | (j2 << 11) | ((off >> 1) & 0x7ff)
            return struct.pack("<HH", hi, lo)
        return struct.pack("<H", [0x4770, 0xBD10][cc % 2])
    if arch == "aarch64l":
        rel = (tgt - pos) >> 2
        if kind == "jmp":
            return struct.pack("<I", 0x14000000 | (rel & 0x3ffffff))
        if kind == "jcc":
            return struct.pack("<I", 0x54000000 | ((rel & 0x7ffff) << 5) | (cc % 14))
        if kind == "cbz":
            return struct.pack("<I", 0xB4000000 | ((cc & 1) << 24) | ((rel & 0x7ffff) << 5) | (cc & 7))
        if kind == "call":
            return struct.pack("<I", 0x94000000 | (rel & 0x3ffffff))
        return struct.pack("<I", 0xD65F03C0)
    if arch == "mips32l":
        rel = ((tgt - pos - 4) >> 2) & 0xffff
        if kind == "jmp":
            return struct.pack("<I", 0x10000000 | rel)            # B
        if kind == "jmpn":
            return struct.pack("<I", 0x08000000 | ((tgt >> 2) & 0x3ffffff))   # J
        if kind == "jcc":
            return struct.pack("<I", [0x14850000, 0x10850000, 0x04810000, 0x04800000][cc % 4] | rel)
        if kind == "call":
            return struct.pack("<I", 0x0C000000 | ((tgt >> 2) & 0x3ffffff))   # JAL
        return struct.pack("<I", 0x03E00008)
    if arch == "ppc32b":
        rel = (tgt - pos)
        if kind == "jmp":
            return struct.pack(">I", 0x48000000 | (rel & 0x03fffffc))
        if kind == "jcc":
            return struct.pack(">I", [0x41820000, 0x40820000, 0x41800000, 0x41810000][cc % 4] | (rel & 0xfffc))
        if kind == "call":
            return struct.pack(">I", 0x48000001 | (rel & 0x03fffffc))
        return struct.pack(">I", 0x4E800020)
    if arch == "msp430":
        rel = ((tgt - pos - 2) >> 1) & 0x3ff
        if kind == "jmp":
            return struct.pack("<H", 0x3C00 | rel)
        if kind == "jcc":
            return struct.pack("<H", [0x2000, 0x2400, 0x2800, 0x2C00, 0x3000, 0x3400, 0x3800][cc % 7] | rel)
        if kind == "call":
            return struct.pack("<HH", 0x12B0, tgt & 0xffff)
        return struct.pack("<H", 0x4130)
    raise ValueError(arch)


def assemble_template(arch, items):
    """items: list of (kind, a, b, c): plain -> a = index; transfers -> a = target item, b = byte offset inside the
    target item (mid-instruction when != 0), c = condition.  -> (bytes, item start offsets)"""
    sizes = []
    for it in items:
        k = it[0]
        if k == "plain":
            sizes.append(len(PLAIN[arch][it[1] % len(PLAIN[arch])]))
        elif k == "raw":
            sizes.append(len(bytes.fromhex(it[1])))
        else:
            sizes.append(SIZES[arch][k])
    offs = [0]
    for s in sizes:
        offs.append(offs[-1] + s)
    out = b""
    n = len(items)
    for i, it in enumerate(items):
        k = it[0]
        if k == "plain":
            out += PLAIN[arch][it[1] % len(PLAIN[arch])]
        elif k == "raw":
            out += bytes.fromhex(it[1])
        else:
            ti = it[1] % (n + 1)            # n = just after the last item
            tgt = offs[ti]
            if ti < n and sizes[ti] > 1:
                tgt += it[2] % sizes[ti]
            out += _enc(arch, k, offs[i], tgt, it[3])
    return out, offs


def case_strategy(arch):
    from hypothesis import strategies as st
    kinds = sorted(SIZES[arch])
    small = st.integers(0, 40)
    sub = st.sampled_from([0, 0, 0, 0, 1, 2, 3])
    kinds = [k for k in kinds if k != "ret"] * 3 + ["ret"]
    item = st.one_of(
        st.tuples(st.just("plain"), small),
        st.tuples(st.just("plain"), small),
        st.tuples(st.just("plain"), small),
        st.tuples(st.sampled_from(kinds), small, sub, small),
        st.tuples(st.sampled_from(kinds), small, sub, small),
    )
    unit = {"x86_32": 1, "x86_64": 1, "armtl": 2, "msp430": 2}.get(arch, 4)
    tpl = st.lists(item, min_size=3, max_size=24)
    rnd = st.binary(min_size=unit, max_size=64)

    @st.composite
    def gen(draw):
        mode = draw(st.sampled_from(["tpl", "tpl", "tpl", "tpl", "mut", "mut", "rnd"]))
        starts = [0]
        if mode == "rnd":
            buf = draw(rnd)
        else:
            items = draw(tpl)
            buf, offs = assemble_template(arch, items)
            starts = offs[:-1]
            if mode == "mut":
                b = bytearray(buf)
                for _ in range(draw(st.integers(1, 3))):
                    p = draw(st.integers(0, len(b) - 1))
                    b[p] = draw(st.integers(0, 255))
                buf = bytes(b)
        n = len(buf)
        start = draw(st.one_of(st.just(0), st.just(0), st.sampled_from(starts), st.sampled_from(starts),
                               st.integers(0, max(0, n - 1))))
        pos = st.integers(0, n + 2)
        opts = {
            "dont_dis": sorted(set(draw(st.lists(pos, max_size=3)))) if draw(st.booleans()) else [],
            "split_dis": sorted(set(draw(st.lists(pos, max_size=3)))) if draw(st.booleans()) else [],
            "lines_wd": draw(st.sampled_from([None, None, None, None, 1, 2, 3, 5])),
            "blocs_wd": draw(st.sampled_from([None, None, None, None, None, 1, 2, 4, 7])),
            "follow_call": draw(st.booleans()),
            "dontdis_retcall": draw(st.sampled_from([False, False, True])),
        }
        return {"arch": arch, "buf": buf.hex(), "start": start, "opts": opts, "mode": mode}
    return gen()


# ---------------------------------------------------------------------------------------------
# oracle

class Reject(Exception):
    def __init__(self, bucket, detail):
        Exception.__init__(self, bucket)
        self.bucket = bucket
        self.detail = detail


def _where(ex):
    import traceback
    tb = traceback.extract_tb(ex.__traceback__)
    for fr in reversed(tb):
        if "/miasm/" in fr.filename:
            return "%s:%s" % (fr.filename.split("/miasm/")[-1], fr.name)
    return "?"


def judge(case, stats=None, info=None):
    """-> (bucket, detail) | None | ("dropped", reason)"""
    try:
        return _judge(case, stats, info if info is not None else {})
    except Reject as r:
        return (r.bucket, r.detail)


def _judge(case, stats, info):
    from miasm.core.locationdb import LocationDB
    from miasm.core.bin_stream import bin_stream_str
    from miasm.core.asmblock import AsmBlockBad, bbl_simplifier
    from miasm.core.utils import Disasm_Exception

    arch = case["arch"]
    m = ctx(arch)
    mn = m.mn
    buf = bytes.fromhex(case["buf"])
    opts = case["opts"]
    start = case["start"]
    loc_db = LocationDB()
    bs = bin_stream_str(buf)
    mdis = m.dis_engine(bs, loc_db=loc_db)
    attrib = mdis.attrib
    mdis.dis_block_callback = None
    dont_dis = set(opts["dont_dis"])
    split_dis = set(opts["split_dis"])
    mdis.dont_dis = list(opts["dont_dis"])
    mdis.split_dis = list(opts["split_dis"])
    mdis.lines_wd = opts["lines_wd"]
    mdis.blocs_wd = opts["blocs_wd"]
    mdis.follow_call = opts["follow_call"]
    mdis.dontdis_retcall = opts["dontdis_retcall"]
    lines_wd, blocs_wd = opts["lines_wd"], opts["blocs_wd"]
    desc = "arch=%s buf=%s start=0x%x opts=%s" % (arch, case["buf"], start, opts)

    def fail(bucket, msg):
        raise Reject("%s:%s" % (arch, bucket), msg + " ; " + desc)

    # reference single-instruction decoding
    cache = {}

    def ref(off):
        if off not in cache:
            try:
                i = mn.dis(bs, attrib, off)
                cache[off] = ("ok", i) if i is not None else ("bad", "cannot")
            except Disasm_Exception:
                cache[off] = ("bad", "cannot")
            except IOError:
                cache[off] = ("bad", "io")
        return cache[off]

    fcache = {}

    def ref_flow(off):
        """fresh decoding with the destinations turned into locations, as the engine does for control transfers"""
        if off not in fcache:
            i = mn.dis(bs, attrib, off)
            if i.breakflow() and i.dstflow():
                i.dstflow2label(loc_db)
            fcache[off] = i
        return fcache[off]

    ncalls = [0]
    real = mdis._dis_block

    def counting(*a, **kw):
        ncalls[0] += 1
        return real(*a, **kw)
    mdis._dis_block = counting
    try:
        asmcfg = mdis.dis_multiblock(start)
    except Exception as ex:
        w = _where(ex)
        if not w.startswith("core/asmblock.py") and not w.startswith("core/graph.py") \
                and not w.startswith("core/locationdb.py"):
            return ("dropped", "single-instruction decoder raises %s (instruction-level property)" % type(ex).__name__)
        fail("exception:dis_multiblock:%s@%s" % (type(ex).__name__, w), "dis_multiblock raised %r" % ex)

    def offs(loc_key):
        return loc_db.get_location_offset(loc_key)

    blocks = list(asmcfg.blocks)
    good = [b for b in blocks if not isinstance(b, AsmBlockBad)]
    bad = [b for b in blocks if isinstance(b, AsmBlockBad)]
    info["nblocks"] = len(good)
    if blocs_wd is not None and ncalls[0] > blocs_wd:
        fail("limit:blocs_wd", "%d blocks disassembled with blocs_wd=%d" % (ncalls[0], blocs_wd))
    if (blocs_wd is None or blocs_wd >= 1) and asmcfg.loc_key_to_block(loc_db.get_offset_location(start)) is None:
        fail("no-start-block", "no block at the start address")
    by_start = {}
    for b in blocks:
        o = offs(b.loc_key)
        if o is None:
            fail("block-without-offset", "block %s has no offset" % b.loc_key)
        if o in by_start:
            fail("two-blocks-one-offset", "two blocks at 0x%x" % o)
        by_start[o] = b
    # bad blocks are justified
    for b in bad:
        o = offs(b.loc_key)
        if b.lines or b.bto:
            fail("bad-block-not-empty", "bad block at 0x%x has lines or successors" % o)
        if b.errno == AsmBlockBad.ERROR_FORBIDDEN:
            if o not in dont_dis:
                fail("bad-block:unjustified", "ERROR_FORBIDDEN at 0x%x which is not forbidden" % o)
        elif b.errno in (AsmBlockBad.ERROR_CANNOT_DISASM, AsmBlockBad.ERROR_IO):
            r = ref(o)
            if r[0] == "ok":
                fail("bad-block:unjustified", "bad block (errno %r) at 0x%x where mn.dis gives `%s`" % (b.errno, o, r[1]))
        else:
            fail("bad-block:unjustified", "bad block errno %r at 0x%x" % (b.errno, o))

    # (a) lines
    where = {}       # instruction offset -> (block, index)
    flowidx = {}     # block start -> index of its flow instruction or None
    for b in good:
        bo = offs(b.loc_key)
        if not b.lines:
            fail("empty-block", "block at 0x%x has no line" % bo)
        if b.lines[0].offset != bo:
            fail("block-label-mismatch", "block labelled 0x%x starts with an instruction at 0x%x" % (bo, b.lines[0].offset))
        if lines_wd is not None and len(b.lines) > lines_wd:
            fail("limit:lines_wd", "block at 0x%x has %d lines, lines_wd=%d" % (bo, len(b.lines), lines_wd))
        pos = bo
        fidx = None
        for i, l in enumerate(b.lines):
            if l.offset != pos:
                fail("lines-not-consecutive", "block 0x%x: line %d at 0x%x, previous line ends at 0x%x" % (bo, i, l.offset, pos))
            if pos in dont_dis:
                fail("forbidden-address-disassembled", "instruction at forbidden address 0x%x (block 0x%x)" % (pos, bo))
            if i > 0 and pos in split_dis:
                fail("forced-split-ignored", "block 0x%x continues through split address 0x%x" % (bo, pos))
            r = ref(pos)
            if r[0] != "ok":
                fail("line-differs-from-decoding", "block 0x%x holds `%s` at 0x%x where mn.dis fails" % (bo, l, pos))
            ri = ref_flow(pos)
            same = (ri.name == l.name and ri.l == l.l and ri.b == l.b and list(ri.args) == list(l.args))
            if not same:
                fail("line-differs-from-decoding", "block 0x%x holds `%s` (%d bytes) at 0x%x, mn.dis gives `%s` (%d bytes)"
                     % (bo, l, l.l, pos, ri, ri.l))
            if pos in where:
                fail("instruction-in-two-blocks", "instruction at 0x%x belongs to blocks 0x%x and 0x%x"
                     % (pos, offs(where[pos][0].loc_key), bo))
            where[pos] = (b, i)
            if ri.breakflow():
                if fidx is None:
                    fidx = i
                else:
                    fail("flow-instruction-mid-block", "block 0x%x continues after the control transfer `%s` at 0x%x "
                         "(second transfer at 0x%x)" % (bo, b.lines[fidx], b.lines[fidx].offset, pos))
            pos += l.l
        if fidx is not None and len(b.lines) - 1 - fidx > b.lines[fidx].delayslot:
            fail("flow-instruction-mid-block", "block 0x%x continues after the control transfer `%s` at 0x%x"
                 % (bo, b.lines[fidx], b.lines[fidx].offset))
        flowidx[bo] = fidx

    def end_of(b):
        return b.lines[-1].offset + b.lines[-1].l

    def implied(b, fidx, after):
        """successors implied by the flow instruction of b: dict offset -> constraint; `after` = fall-through address"""
        ri = ref_flow(b.lines[fidx].offset)
        exp = {}
        if ri.dstflow():
            if (not ri.is_subcall()) or opts["follow_call"]:
                for d in ri.getdstflow(loc_db):
                    if d.is_loc():
                        exp[offs(d.loc_key)] = C_TO
        ft = ri.splitflow() and not (ri.is_subcall() and opts["dontdis_retcall"])
        if ft:
            exp[after] = C_NEXT
        return exp, ft

    def bto_of(b):
        out = {}
        for c in b.bto:
            o = offs(c.loc_key)
            if o in out:
                fail("duplicate-constraint", "block 0x%x has two constraints to 0x%x" % (offs(b.loc_key), o))
            out[o] = c.c_t
        return out

    def fmt(d):
        return "{" + ", ".join("%s:0x%x" % (t, o) for o, t in sorted(d.items())) + "}"

    def cut_by_lines_wd(b):
        """b (no flow instruction, no successor) is the tail of a block cut by the line watchdog and split
        afterwards: some chain of fall-through pieces ending with b holds lines_wd lines"""
        if lines_wd is None:
            return False

        def search(cur, cum, depth):
            if cum >= lines_wd:
                return cum == lines_wd
            if depth > 64:
                return False
            for p in good:
                if p is not cur and flowidx[offs(p.loc_key)] is None and end_of(p) == offs(cur.loc_key) \
                        and bto_of(p) == {offs(cur.loc_key): C_NEXT}:
                    if search(p, cum + len(p.lines), depth + 1):
                        return True
            return False
        return search(b, len(b.lines), 0)

    # (d) successors
    nsplit = 0
    for b in good:
        bo = offs(b.loc_key)
        got = bto_of(b)
        fidx = flowidx[bo]
        end = end_of(b)
        if fidx is None:
            if got == {end: C_NEXT}:
                if end in by_start:
                    nsplit += 1
                continue
            # a lone delay-slot block that inherited the successors of the branch just before it
            ok = False
            dsl = b.lines[0].delayslot
            if dsl and len(b.lines) <= dsl:
                for p in good:
                    pf = flowidx[offs(p.loc_key)]
                    if pf is not None and end_of(p) == bo and bto_of(p) == {bo: C_NEXT} and pf == len(p.lines) - 1:
                        exp, _ = implied(p, pf, end)
                        if exp == got:
                            ok = True
            if ok:
                continue
            if not got and cut_by_lines_wd(b):
                continue
            fail("successors:no-transfer", "block 0x%x ends at 0x%x without control transfer, expected successors "
                 "{c_next:0x%x}, got %s" % (bo, end, end, fmt(got)))
        fl = b.lines[fidx]
        complete = (len(b.lines) - 1 - fidx == fl.delayslot)
        exp, ft = implied(b, fidx, end)
        if complete:
            if got != exp:
                fail("successors:%s" % ("call" if fl.is_subcall() else "cond" if fl.splitflow() else "jump"),
                     "block 0x%x ends with `%s`: expected successors %s, got %s" % (bo, fl, fmt(exp), fmt(got)))
            continue
        # delay slot not part of the block (watchdog, forbidden/undecodable/already-disassembled slot, branch in slot)
        dsts = dict((o, t) for o, t in exp.items() if t == C_TO)
        allowed = dict(dsts)
        allowed.setdefault(end, C_NEXT)
        if all(got.get(o) == t or (o == end and got.get(o) == C_NEXT) for o, t in dsts.items()) \
                and all(dsts.get(o) == t or (o == end and t == C_NEXT) for o, t in got.items()):
            continue
        nxt = by_start.get(end)
        if got == {end: C_NEXT} and nxt is not None and not isinstance(nxt, AsmBlockBad) \
                and flowidx[end] is None and len(nxt.lines) <= fl.delayslot:
            exp2, _ = implied(b, fidx, end_of(nxt))
            if bto_of(nxt) == exp2:
                continue
        fail("successors:delay-slot", "block 0x%x ends with `%s` without its delay slot: expected successors within %s, "
             "got %s" % (bo, fl, fmt(allowed), fmt(got)))
    info["nsplit"] = nsplit

    # graph edges mirror the constraints
    for b in good:
        want = {}
        for c in b.bto:
            if asmcfg.loc_key_to_block(c.loc_key) is not None:
                want[c.loc_key] = c.c_t
        have = {}
        for s in asmcfg.successors(b.loc_key):
            have[s] = asmcfg.edges2constraint.get((b.loc_key, s))
        if want != have:
            fail("edges-differ-from-constraints", "block 0x%x: edges %s, constraints %s"
                 % (offs(b.loc_key), sorted((offs(k), v) for k, v in have.items()), sorted((offs(k), v) for k, v in want.items())))
    # (c) a destination that is an instruction boundary of some block starts a block
    for b in good:
        for c in b.bto:
            o = offs(c.loc_key)
            if o in where and where[o][1] != 0:
                fail("target-not-block-head", "block 0x%x has successor 0x%x which is line %d of block 0x%x"
                     % (offs(b.loc_key), o, where[o][1], offs(where[o][0].loc_key)))
    # without block limit every destination has been explored
    if blocs_wd is None:
        for b in good:
            for c in b.bto:
                if asmcfg.loc_key_to_block(c.loc_key) is None:
                    fail("destination-not-explored", "block 0x%x has successor 0x%x with no block (no block limit set)"
                         % (offs(b.loc_key), offs(c.loc_key)))

    # bbl_simplifier
    if mn.delayslot or any(l.delayslot for b in good for l in b.lines[:1]):
        info["simp"] = "skipped"
        return None
    bn, be, contracted = igraph(asmcfg, loc_db, AsmBlockBad)
    before = (bn, be)
    have_block = set(b.loc_key for b in blocks)
    ob_bto = dict((b.lines[-1].offset, list(b.bto)) for b in good)      # snapshot: merging mutates the blocks
    where = dict((o, (b, i)) for o, (b, i) in where.items())
    lastlen = dict((offs(b.loc_key), len(b.lines)) for b in good)
    try:
        new = bbl_simplifier(asmcfg)
    except Exception as ex:
        fail("bbl_simplifier:exception:%s@%s" % (type(ex).__name__, _where(ex)), "bbl_simplifier raised %r" % ex)
    after = igraph(new, loc_db, AsmBlockBad, contracted)[:2]
    info["merged"] = len(asmcfg) - len(new) if len(new) <= len(asmcfg) else 0
    if before != after:
        bn, be = before
        an, ae = after
        if bn - an:
            o = sorted(bn - an, key=str)[0]
            kind = "other"
            if o in where:
                ob, oi = where[o]
                if oi == lastlen[offs(ob.loc_key)] - 1 and any(c.loc_key not in have_block for c in ob_bto.get(o, ())):
                    kind = "transfer-with-destination-outside-graph"
            fail("bbl_simplifier:instruction-lost:%s" % kind,
                 "instruction %s is on a path before merging and on none after" % _h(o))
        if an - bn:
            o = sorted(an - bn, key=str)[0]
            fail("bbl_simplifier:instruction-added", "instruction %s appears after merging" % _h(o))
        if be - ae:
            e = sorted(be - ae, key=str)[0]
            fail("bbl_simplifier:edge-lost", "%s can be followed by %s before merging, not after" % (_h(e[0]), _h(e[1])))
        e = sorted(ae - be, key=str)[0]
        fail("bbl_simplifier:edge-added", "%s can be followed by %s only after merging" % (_h(e[0]), _h(e[1])))
    return None


def _h(o):
    return "0x%x" % o if isinstance(o, int) else str(o)


def igraph(cfg, loc_db, AsmBlockBad, contract=None):
    """instruction-level graph (nodes, edges, contracted) of a CFG, after contracting the final jumps of blocks
    whose decoded destinations (constraints) are all one single block present in the graph.  The set of such jumps
    is computed on the graph before merging and reused (`contract`) for the merged graph, so that both sides are
    compared modulo the same jumps."""
    nodes = set()
    edges = set()
    removable = set()
    heads = {}
    for b in cfg.blocks:
        o = loc_db.get_location_offset(b.loc_key)
        if isinstance(b, AsmBlockBad) or not b.lines:
            heads[b.loc_key] = ("bad", o)
        else:
            heads[b.loc_key] = b.lines[0].offset
    for b in cfg.blocks:
        h = heads[b.loc_key]
        nodes.add(h)
        if isinstance(h, tuple):
            continue
        lo = [l.offset for l in b.lines]
        nodes.update(lo)
        edges.update(zip(lo, lo[1:]))
        for s in cfg.successors(b.loc_key):
            edges.add((lo[-1], heads[s]))
        last = b.lines[-1]
        dsts = set(c.loc_key for c in b.bto)
        if last.breakflow() and last.dstflow() and not last.is_subcall() and len(dsts) == 1 \
                and cfg.loc_key_to_block(list(dsts)[0]) is not None and len(lo) >= 1:
            removable.add(lo[-1])
    if contract is not None:
        removable = set(j for j in contract if j in nodes)
    contracted = set(removable)
    for j in sorted(removable):
        preds = [a for (a, b) in edges if b == j and a != j]
        succs = [b for (a, b) in edges if a == j and b != j]
        selfloop = (j, j) in edges
        edges = set(e for e in edges if j not in e)
        nodes.discard(j)
        for a in preds:
            for s in succs:
                edges.add((a, s))
        if selfloop:
            for a in preds:
                edges.add((a, a))
    return nodes, edges, contracted


# ---------------------------------------------------------------------------------------------

def random_opts(rng, n):
    def some():
        return sorted(set(rng.randrange(0, n + 2) for _ in range(rng.randrange(0, 3))))
    return {"dont_dis": some() if rng.random() < .3 else [], "split_dis": some() if rng.random() < .4 else [],
            "lines_wd": rng.choice([None, None, None, 2, 3, 5]), "blocs_wd": rng.choice([None, None, None, 2, 4, 7]),
            "follow_call": rng.random() < .5, "dontdis_retcall": rng.random() < .3}


def _shrink(case, bucket, budget):
    import copy

    def still(c):
        r = judge(c)
        return r is not None and r[0] == bucket
    cur = copy.deepcopy(case)
    calls = 0
    changed = True
    while changed and calls < budget:
        changed = False
        cands = []
        o = cur["opts"]
        for k, v in (("lines_wd", None), ("blocs_wd", None), ("follow_call", False), ("dontdis_retcall", False),
                     ("dont_dis", []), ("split_dis", [])):
            if o[k] != v:
                c = copy.deepcopy(cur)
                c["opts"][k] = v
                cands.append(c)
        for k in ("dont_dis", "split_dis"):
            for i in range(len(o[k])):
                c = copy.deepcopy(cur)
                del c["opts"][k][i]
                cands.append(c)
        buf = bytes.fromhex(cur["buf"])
        unit = {"x86_32": 1, "x86_64": 1, "armtl": 2, "msp430": 2}.get(cur["arch"], 4)
        n = len(buf)
        # truncate the tail
        for cut in (n // 2, n - 4 * unit, n - unit):
            cut -= cut % unit
            if 0 < cut < n and cur["start"] < cut:
                c = copy.deepcopy(cur)
                c["buf"] = buf[:cut].hex()
                cands.append(c)
        if cur["start"] != 0:
            c = copy.deepcopy(cur)
            c["start"] = 0
            cands.append(c)
        for c in cands:
            calls += 1
            if still(c):
                cur = c
                changed = True
                break
            if calls >= budget:
                break
    return cur


class C31(Check):
    pid = "C31"
    rule = ("Hypothesis per architecture (x86_32, arml, x86_64, armtl, aarch64l, mips32l, ppc32b, msp430): buffers = "
            "hand-encoded template code of <=24 items (plain instructions, short/near jumps, conditional jumps, "
            "calls, returns, loop/cbz forms; targets = start of an item, a byte inside an item (overlapping "
            "instructions) or the end of the buffer), the same with 1-3 mutated bytes, random bytes (<=64), and "
            "clang -O0/-O1/-O2 compiled C functions; start address = 0 / an item start / any byte; options dont_dis, "
            "split_dis (<=3 addresses each), lines_wd, blocs_wd, follow_call, dontdis_retcall. The returned AsmCFG is "
            "judged clause by clause against mn.dis and the instruction flow predicates, then bbl_simplifier against "
            "the instruction-level graph. Non-trivial: >=3 decoded blocks one of which ends by falling into another "
            "block (split or stop on an already disassembled address); distinct by (arch, bytes, start, options).")
    assumptions = [
        "single-instruction decoding (mn.dis) and the per-instruction flow predicates (breakflow, splitflow, dstflow, "
        "is_subcall, getdstflow, dstflow2label) are the reference: their own correctness is properties C14-C17",
        "the architecture callbacks installed by Machine.dis_engine (ARM `MOV LR,PC / LDR PC` call idiom) are disabled: "
        "the property is about the generic engine of asmblock.py",
        "a block cut by lines_wd may have no successor (the statement does not say where it continues)",
        "delay-slot architectures (MIPS): a branch whose delay slot could not be put in its block (watchdog, forbidden, "
        "undecodable or already disassembled slot, branch in the slot) may carry its destinations itself or, when a "
        "split isolated the slot, leave them to the one-instruction slot block that follows it",
        "blocs_wd bounds the number of blocks decoded from scratch (calls of _dis_block); blocks created by splitting "
        "do not count",
        "bbl_simplifier is not implemented for delay-slot architectures (raises by contract): not judged on mips32",
        "a buffer on which the single-instruction decoder itself raises an unexpected exception is out of domain here",
    ]
    level_text = ("randomized structural validation of the disassembler's CFG (random, hand-encoded overlapping and "
                  "compiled code, all engine options) against single-instruction decoding, plus graph-level equivalence "
                  "for block merging")
    technique = "property-based testing with a structural validity oracle (Hypothesis generators, compiled corpus)"

    def nshards(self, tier):
        return 32 if tier == "thorough" else 16

    def compiled_cases(self, arch, seed, shard, tier, res):
        """clang-compiled functions as buffers"""
        import random
        from vlib import ccorpus
        if arch not in ccorpus.TARGETS:
            return []
        rng = random.Random(seed)
        opt = ["-O1", "-O0", "-O2", "-Os"][(shard // len(ARCHS)) % 4]
        funcs = ccorpus.fixed_functions(arch)[:6] + ccorpus.gen_functions(seed, 6 if tier == "quick" else 30, arch)
        wd = tempfile.mkdtemp(prefix="c31-", dir="/var/tmp")
        out = []
        try:
            try:
                r, err = ccorpus.compile_batch(funcs, arch, opt, wd, 0)
            except Exception as ex:
                res.dropped["compiled corpus unavailable: %s" % type(ex).__name__] += 1
                return []
            for ent in r:
                if ent["code"] is None:
                    res.dropped["compiled function dropped: %s" % ent["reason"]] += 1
                    continue
                code = ent["code"]
                if len(code) > 600:
                    res.dropped["compiled function larger than 600 bytes"] += 1
                    continue
                for k in range(2):
                    opts = random_opts(rng, len(code)) if k else \
                        {"dont_dis": [], "split_dis": [], "lines_wd": None, "blocs_wd": None,
                         "follow_call": False, "dontdis_retcall": False}
                    out.append({"arch": arch, "buf": code.hex(), "start": 0, "opts": opts, "mode": "compiled" + opt})
        finally:
            shutil.rmtree(wd, ignore_errors=True)
        return out

    def run_shard(self, tier, seed, shard, nshards):
        from vlib import hyp
        res = ShardResult()
        arch = ARCHS[shard % len(ARCHS)]
        ctx(arch)
        n = {"x86_32": 700, "x86_64": 600, "arml": 500, "armtl": 500, "aarch64l": 600, "mips32l": 600, "ppc32b": 600,
             "msp430": 700}[arch]
        if tier == "thorough":
            n *= 12
        cnt = [0]

        def one(case):
            cnt[0] += 1
            info = {}
            r = judge(case, res.counters, info)
            if r is not None and r[0] == "dropped":
                res.dropped[r[1]] += 1
                return
            nb = info.get("nblocks", 0)
            nt = nb >= 3 and info.get("nsplit", 0) > 0
            res.counters["%s:%s" % (arch, case["mode"])] += 1
            res.counters["blocks %s" % ("1" if nb <= 1 else "2" if nb == 2 else "3-5" if nb <= 5 else ">5")] += 1
            if info.get("nsplit"):
                res.counters["cases with a fall-into block"] += 1
            if info.get("merged"):
                res.counters["cases where bbl_simplifier merged blocks"] += 1
            for k in ("lines_wd", "blocs_wd"):
                if case["opts"][k] is not None:
                    res.counters["opt %s" % k] += 1
            for k in ("dont_dis", "split_dis", "follow_call", "dontdis_retcall"):
                if case["opts"][k]:
                    res.counters["opt %s" % k] += 1
            res.case(nontrivial_key=(arch, case["buf"], case["start"], repr(sorted(case["opts"].items()))) if nt else None,
                     sample=case if nt and cnt[0] % 150 == 0 else None)
            if r is not None:
                res.fail(r[0], r[1], case)
        for case in self.compiled_cases(arch, seed, shard, tier, res):
            one(case)
        hyp.survey(case_strategy(arch), n, seed, one)
        return res

    def replay(self, case):
        ctx(case["arch"])
        r = judge(case)
        if r is None or r[0] == "dropped":
            return None
        return Failure(r[0], r[1], case)

    def shrink(self, failure, tier):
        small = _shrink(failure.case, failure.bucket, 150 if tier == "quick" else 600)
        r = judge(small)
        if r is None or r[0] != failure.bucket:
            return failure
        return Failure(r[0], r[1], small)


CHECK = C31()
