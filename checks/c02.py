"""C02 — simplification terminates and reaches a stable fixed point.

Same generator as C01.  Idempotence: simp(simp(e)) is simp(e) (expressions are hash-consed).
Termination is decided by a deterministic witness: every call of the simplifier's per-node
pass application is logged; when a call budget is exceeded the log tail is examined and a
periodic tail (the same expressions fed to the passes over and over) is a cycle, i.e. a
proof of non-termination.  RecursionError is a violation.  A budget hit without a periodic
tail, or a wall-clock limit, is only counted as inconclusive — except constant folds of a
single operator, whose cost is bounded by the operand width (see LIMIT note).
"""
from vlib.runner import Check, ShardResult, Failure
from vlib import simplab, exprgen
from vlib.timeout import call_with_limit, TimeLimit

CONFIGS = ("expr_simp", "expr_simp_high_to_explicit", "expr_simp_explicit")
STEP_BUDGET = 20000
LIMIT_S = 20

SMALL_NODES = 8
_state = {}
_hung = {}


class BudgetExceeded(BaseException):
    pass


class StepLog(object):
    def __init__(self):
        self.n = 0
        self.tail = []
        self.enabled = False

    def reset(self):
        self.n = 0
        self.tail = []


def simplifiers():
    if "simps" not in _state:
        from miasm.expression import simplifications as sm
        rec = simplab.Recorder()
        log = StepLog()
        simps = {n: getattr(sm, n) for n in CONFIGS}
        for s in simps.values():
            simplab.instrument(s, rec)
            _wrap_apply(s, log)
        _state.update(simps=simps, rec=rec, log=log)
    return _state["simps"], _state["rec"], _state["log"]


def _wrap_apply(simp, log):
    orig = simp.apply_simp

    def apply_simp(expression):
        log.n += 1
        log.tail.append(expression)
        if len(log.tail) > 4000:
            del log.tail[:2000]
        if log.n > STEP_BUDGET:
            raise BudgetExceeded()
        return orig(expression)
    simp.apply_simp = apply_simp


def periodic_tail(tail):
    """smallest period p (<= 600) such that the last 3*p entries are three copies of a block"""
    n = len(tail)
    for p in range(1, min(600, n // 3) + 1):
        a = tail[n - p:]
        if tail[n - 2 * p:n - p] == a and tail[n - 3 * p:n - 2 * p] == a:
            return p
    return None


def _variants_for_history(e):
    """e with one (non-leaf, else first) operand x replaced by x + 0"""
    import miasm.expression.expression as m
    kids = simplab.children(e)
    if not kids:
        return []
    idx = 0
    for i, k in enumerate(kids):
        if simplab.children(k):
            idx = i
            break
    k = kids[idx]
    try:
        wrapped = m.ExprOp('+', k, m.ExprInt(0, k.size))
        return [simplab.rebuild(e, kids[:idx] + [wrapped] + kids[idx + 1:])]
    except Exception:
        return []


def judge(e, stats=None, info=None):
    simps, rec, log = simplifiers()
    out = []
    if info is None:
        info = {}
    if _hung.get(simplab.shape(e), 0) >= 2:
        if stats is not None:
            stats["skipped: expressions of this shape already hit the time limit twice in this shard"] += 1
        return out
    for cname in CONFIGS:
        simp = simps[cname]
        # history: first simplify a close variant of e on the same simplifier instance (one operand wrapped in
        # "+ 0"), so that cache entries left by another expression are in place when e itself is simplified; the
        # output for e must still be a fixed point
        for v in _variants_for_history(e):
            try:
                call_with_limit(LIMIT_S, simp, v)
            except BaseException:
                simp.cache.clear()
        rec.reset()
        log.reset()
        try:
            r1 = call_with_limit(LIMIT_S, simp, e)
        except BudgetExceeded:
            simp.cache.clear()
            p = periodic_tail(log.tail)
            if p is not None:
                blk = log.tail[len(log.tail) - p:]
                out.append(("%s:cycle:%s" % (cname, simplab.shape(blk[0])),
                            "%s(%s) feeds the same %d expression(s) to its passes forever, e.g. %s"
                            % (cname, e, p, str(blk[0])[:300])))
            elif stats is not None:
                stats["inconclusive:step-budget"] += 1
            continue
        except TimeLimit:
            simp.cache.clear()
            _hung[simplab.shape(e)] = _hung.get(simplab.shape(e), 0) + 1
            if simplab.size_of(e) <= SMALL_NODES:
                out.append(("%s:no-result:%s" % (cname, simplab.shape(e)),
                            "%s(%s): an expression of %d nodes (normal cost < 10 ms) was not simplified within "
                            "%d s" % (cname, e, simplab.size_of(e), LIMIT_S)))
            elif stats is not None:
                stats["inconclusive:time-limit"] += 1
            break
        except RecursionError:
            simp.cache.clear()
            out.append(("%s:RecursionError" % cname, "%s(%s)" % (cname, e)))
            continue
        except Exception:
            simp.cache.clear()
            if stats is not None:
                stats["exception (belongs to C01)"] += 1
            continue
        if stats is not None:
            stats["steps:" + cname] += log.n
            stats["max_steps"] = max(stats["max_steps"], log.n)
        if r1 is not e:
            info["changed"] = True
            info.setdefault("result", str(r1))
        rec.reset()
        log.reset()
        try:
            r2 = call_with_limit(LIMIT_S, simp, r1)          # warm cache
            if r2 is r1:
                simp.cache.clear()
                r2 = call_with_limit(LIMIT_S, simp, r1)      # cold cache (fresh process view)
        except (BudgetExceeded, TimeLimit, RecursionError, Exception):
            simp.cache.clear()
            if stats is not None:
                stats["second pass did not complete (judged on its own as a case)"] += 1
            continue
        if r2 is not r1:
            # which rule still fires on the output?
            simp.cache.clear()
            rec.reset()
            log.reset()
            try:
                call_with_limit(LIMIT_S, simp, r1)
            except BaseException:
                pass
            first = rec.steps[0] if rec.steps else None
            key = "%s:%s" % (first[0], simplab.shape(first[1])) if first else "no-rule(canonize)"
            out.append(("%s:not-idempotent:%s" % (cname, key),
                        "%s(%s) = %s but simplifying that again gives %s" % (cname, e, r1, r2)))
    return out


class C02(Check):
    pid = "C02"
    rule = ("same generator as C01 (free trees + rule-directed templates, widths 1..128) plus constant folds with "
            "huge operands; each of the 3 simplifier configurations must return, and simp(simp(e)) must be the "
            "identical object simp(e). Termination witness: periodic tail of the per-node pass-application log after "
            "a 20000-call budget, or RecursionError. Non-trivial: simp(e) is not e; distinct by expression text.")
    assumptions = ["a wall-clock limit or step budget hit without a periodic log tail is inconclusive, not a "
                   "violation; exception: an expression of at most 8 nodes (normal cost < 10 ms even under load) that is not "
                   "simplified within 20 s is reported as non-terminating"]
    level_text = ("randomized search for non-idempotent outputs and for non-terminating rewrites, the latter decided "
                  "by a cycle witness in the pass-application log rather than by a clock")
    technique = "property-based testing (idempotence oracle + cycle-witness termination oracle)"

    def nshards(self, tier):
        return 64 if tier == "thorough" else 16

    def run_shard(self, tier, seed, shard, nshards):
        from hypothesis import strategies as st
        from vlib import hyp
        res = ShardResult()
        nex = 10000 if tier == "thorough" else 1400
        cnt = [0]

        def one(te):
            tag, e = te
            cnt[0] += 1
            if cnt[0] % 3000 == 0:
                for s in simplifiers()[0].values():
                    s.cache.clear()
            info = {}
            fails = judge(e, res.counters, info)
            res.counters["gen:" + tag] += 1
            nt = info.get("changed", False)
            res.case(nontrivial_key=repr(e) if nt else None,
                     sample={"expr": str(e), "simplified": info.get("result")} if nt and cnt[0] % 97 == 0 else None)
            for b, d in fails:
                res.fail(b, d, {"expr": simplab.ser(e)})
        strat = st.one_of(exprgen.any_expr(depth=3), exprgen.any_expr(depth=3), huge_const_folds())
        hyp.survey(strat, nex, seed, one)
        return res

    def replay(self, case):
        e = simplab.deser(case["expr"])
        _hung.clear()
        fails = judge(e)
        if not fails:
            return None
        b, d = fails[0]
        return Failure(b, d, case)

    def shrink(self, failure, tier):
        e = simplab.deser(failure.case["expr"])
        if "no-result" in failure.bucket:
            return failure        # every probe would cost the full time limit

        def pred(x):
            return any(b == failure.bucket for b, _ in judge(x))
        small = simplab.shrink_expr(e, pred, budget=1500)
        for b, d in judge(small):
            if b == failure.bucket:
                return Failure(b, d, {"expr": simplab.ser(small)})
        return failure


def huge_const_folds():
    """one operator on constants with boundary operands at large widths, and the few shapes whose
    guards do arithmetic on a constant shift count"""
    from hypothesis import strategies as st

    @st.composite
    def s(draw):
        import miasm.expression.expression as m
        w = draw(st.sampled_from([31, 32, 33, 63, 64, 65, 127, 128]))
        mk = (1 << w) - 1
        big = st.sampled_from([mk, mk - 1, 1 << (w - 1), (1 << (w - 1)) - 1, 1 << (w - 2), 0x40000000 & mk, 0xffffffff & mk])
        val = st.one_of(big, st.integers(0, mk))
        shape = draw(st.integers(0, 3))
        a = m.ExprId("a%d" % w, w)
        if shape == 0:
            op = draw(st.sampled_from(['**', '<<', '>>', 'a>>', '<<<', '>>>', '*', '+', 'umod', 'udiv', 'sdiv', 'smod']))
            return ("huge_const", m.ExprOp(op, m.ExprInt(draw(val), w), m.ExprInt(draw(val), w)))
        if shape == 1:
            return ("huge_const", m.ExprOp('>>', m.ExprOp('&', a, m.ExprInt(draw(val), w)), m.ExprInt(draw(val), w)))
        if shape == 2:
            sh = m.ExprOp('<<', a, m.ExprInt(draw(val), w))
            if draw(st.booleans()):
                sh = m.ExprOp('-', sh)
            return ("huge_const", m.ExprOp('+', a, sh))
        op = draw(st.sampled_from(['<<', '>>', '<<<', '>>>', 'a>>']))
        inner = m.ExprOp(draw(st.sampled_from(['<<', '>>', '<<<', '>>>'])), a, m.ExprInt(draw(val), w))
        return ("huge_const", m.ExprOp(op, inner, m.ExprInt(draw(val), w)))
    return s()


CHECK = C02()
