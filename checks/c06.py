"""C06 — the SMT-LIB2 translation agrees with miasm's own evaluation.

The text of TranslatorSMT2(endianness).from_expr(e) is embedded in a script built with the translator's own
to_smt2(): declarations, (assert (= id value)) for every identifier, (assert (= (select memN addr) byte)) for every
cell the reference evaluator read, (declare-fun out__) and (assert (= out__ <term>)).  z3 parses the script
(parse_smt2_string; a parse error is `ill-formed`), solves it, and the model value of out__ must equal miasm's
evaluation (expr_simp_explicit after substitution), kept only where S agrees.  Thorough tier: a sample of the
scripts is also solved by the cvc5 binary.
"""
import os
import re
import subprocess

from vlib.runner import Check, ShardResult, Failure
from vlib import simplab, exprgen, transl
from vlib.refeval import S, Env

SMT2_CFG = dict(nary=transl.NARY,
                binw=['-', '/', '%', '<<', '>>', 'a>>', '<<<', '>>>', 'udiv', 'umod', 'sdiv', 'smod'],
                un=['-', 'cntleadzeros', 'cnttrailzeros'], cmp=['=='], parity=True, ext=False,
                mem=True, maxw=64,
                okw=lambda op, w: (w % 8 == 0 or w in (1, 7, 12, 33)) and w <= 64 if op == 'mem' else True)
NTUPLES = 9
CVC5 = "/usr/bin/cvc5"


class SMT2Harness(transl.Harness):
    name = "smt2"
    env_cls = Env

    def __init__(self):
        self.memo = {}
        self.cvc5 = False
        self.stats = None
        self.scratch = None

    def in_domain(self, e):
        for x in simplab.subexprs(e):
            if x.__class__.__name__ == 'ExprOp' and x.op == 'parity' and x.args[0].size < 8:
                return "parity of an operand narrower than 8 bits (no caller builds it; out of domain)"
        return None

    def translate(self, e, env):
        key = (e, bool(env.big_endian))
        if key in self.memo:
            return self.memo[key]
        if len(self.memo) > 200:
            self.memo.clear()
        from miasm.ir.translators.smt2 import TranslatorSMT2
        try:
            t = TranslatorSMT2(endianness=">" if env.big_endian else "<")
            r = ("ok", (t, t.from_expr(e)))
        except NotImplementedError as ex:
            r = ("reject", str(ex))
        except Exception as ex:
            r = ("exc", type(ex).__name__, repr(ex)[:300])
        self.memo[key] = r
        return r

    def show(self, obj):
        s = obj[1]
        return s if len(s) < 700 else s[:700] + "..."

    def script(self, obj, e, env):
        t, term = obj
        envc = transl.clone(env)
        S(e, envc)
        lines = []
        for (n, s) in simplab.free_ids(e):
            lines.append("(assert (= %s (_ bv%d %d)))" % (n, envc.read_id(n, s), s))
        reader = transl.clone(env)
        seen = set()
        for (pw, addr) in envc.touched:
            if (pw, addr) in seen:
                continue
            seen.add((pw, addr))
            lines.append("(assert (= (select mem%d (_ bv%d %d)) (_ bv%d 8)))" % (pw, addr, pw, reader.read_byte(pw, addr)))
        lines.append("(declare-fun out__ () (_ BitVec %d))" % e.size)
        lines.append("(assert (= out__ %s))" % term)
        return t.to_smt2(lines)

    def run(self, obj, e, env):
        import z3
        try:
            text = self.script(obj, e, env)
        except Exception as ex:
            return ("fail", "script-exception:%s" % type(ex).__name__, "to_smt2 raised %r" % (ex,))
        try:
            asserts = z3.parse_smt2_string(text)
        except z3.Z3Exception as ex:
            return ("fail", "ill-formed", "z3 rejects the script: %s" % str(ex)[:300].replace("\n", " "))
        s = z3.Solver()
        s.set("timeout", 20000)
        s.add(asserts)
        r = s.check()
        if r == z3.unknown:
            return ("drop", "inconclusive: solver gave up (20 s)")
        if r == z3.unsat:
            return ("fail", "unsat", "the script is unsatisfiable")
        v = s.model().eval(z3.BitVec("out__", e.size), model_completion=True).as_long()
        if self.cvc5:
            c = self.run_cvc5(text, e.size)
            if self.stats is not None:
                self.stats.counters["cvc5:" + c[0]] += 1
            if c[0] == "error":
                return ("fail", "ill-formed-cvc5", "cvc5 rejects the script: %s" % c[1][:300])
            if c[0] == "value" and c[1] != v:
                return ("fail", "solvers-disagree", "z3 gives %#x, cvc5 gives %#x" % (v, c[1]))
        return ("value", v)

    def run_cvc5(self, text, size):
        body = text.replace("(check-sat)\n", "") + "(check-sat)\n(get-value (out__))\n"
        body = body.replace("(set-logic QF_ABV)", "(set-option :produce-models true)\n(set-logic QF_ABV)")
        path = os.path.join(self.scratch, "q.smt2")
        with open(path, "w") as f:
            f.write(body)
        try:
            p = subprocess.run([CVC5, "--lang=smt2", "--tlimit=20000", path], stdout=subprocess.PIPE,
                               stderr=subprocess.STDOUT, timeout=60)
        except subprocess.TimeoutExpired:
            return ("timeout",)
        out = p.stdout.decode("utf-8", "replace")
        if "(error" in out:
            return ("error", out.strip().replace("\n", " "))
        if not out.startswith("sat"):
            return ("other", out[:100])
        m = re.search(r"\(\(out__ #b([01]+)\)\)", out)
        if m:
            return ("value", int(m.group(1), 2))
        m = re.search(r"\(\(out__ #x([0-9a-fA-F]+)\)\)", out)
        if m:
            return ("value", int(m.group(1), 16))
        m = re.search(r"\(\(out__ \(_ bv(\d+) \d+\)\)\)", out)
        if m:
            return ("value", int(m.group(1)))
        return ("other", out[:100])

    def opkey(self, sub, env):
        k = simplab._kind(sub)
        if k == "mem":
            k += ":big-endian" if env.big_endian else ":little-endian"
            if sub.size % 8:
                k += ":unaligned-size"
        if k in ('<<<', '>>>'):
            k += ":pow2" if sub.size & (sub.size - 1) == 0 else ":non-pow2"
        return k

    def envs(self, e, n):
        out = transl.tuples(e, n, env_cls=Env)
        if simplab.has_mem(e):
            out += transl.tuples(e, max(2, n // 2), salt="be", env_cls=Env, big_endian=True)
        return out


H = SMT2Harness()


def strategy():
    from hypothesis import strategies as st

    @st.composite
    def case(draw):
        if draw(st.integers(0, 11)) == 0:
            return draw(exprgen.free_expr(draw(exprgen.widths(1, 64)), 2, {"maxw": 64}))
        return draw(transl.sized_expr(SMT2_CFG, depth=draw(st.sampled_from([1, 2, 2, 3]))))
    return case()


class C06(Check):
    pid = "C06"
    needs_z3 = True
    rule = ("Hypothesis: expression trees over the operators TranslatorSMT2 accepts (+ * ^ & | - / % << >> a>> <<< >>> "
            "udiv umod sdiv smod unary - cntleadzeros cnttrailzeros parity == slices compositions conditionals memory "
            "reads of 1..64 bits over 8/16/32/64-bit pointers), widths 1..64, depth<=3 (8% over every operator to "
            "count rejections); 9 assignments per expression (0, 1, -1, INT_MIN, INT_MAX, INT_MIN/-1 mixes, boundary/random picks), plus 4 "
            "big-endian ones when the expression reads memory; script solved by z3 (thorough: 2% also by cvc5). "
            "Non-trivial: >= 2 operator nodes or a memory read; distinct by expression text.")
    assumptions = ["memory arrays are named mem<pointer width>; only the cells read by the reference evaluator are "
                   "constrained, the solver chooses the others",
                   "a read whose size is not a multiple of 8 takes the low bits of the enclosing bytes",
                   "assignments on which miasm's evaluation is not a constant, is undefined (division by zero) or "
                   "disagrees with the reference evaluator are dropped and counted",
                   "parity of operands narrower than 8 bits is out of domain",
                   "z3's SMT-LIB2 front end decides well-formedness (cvc5 on a sample in the thorough tier)"]
    level_text = ("randomized differential testing of the emitted SMT-LIB2 terms, solved under concrete assignments, "
                  "against miasm's constant evaluation, both byte orders")
    technique = "property-based differential testing (Hypothesis generators, SMT solver evaluation)"

    def nshards(self, tier):
        return 32 if tier == "thorough" else 16

    def run_shard(self, tier, seed, shard, nshards):
        from vlib import hyp
        import shutil
        import tempfile
        res = ShardResult()
        nex = 2000 if tier == "thorough" else 500
        cnt = [0]
        H.stats = res
        use_cvc5 = tier == "thorough" and os.path.exists(CVC5)
        if use_cvc5:
            H.scratch = tempfile.mkdtemp(prefix="verif-c06-", dir="/var/tmp")

        def one(e):
            cnt[0] += 1
            if cnt[0] % 2000 == 0:
                transl.explicit_simp().cache.clear()
            H.cvc5 = use_cvc5 and cnt[0] % 50 == 0
            fails = H.judge(e, NTUPLES, res)
            H.cvc5 = False
            for k in transl.op_kinds(e):
                res.counters["op:" + k] += 1
            res.counters["width:" + transl.wclass(e.size)] += 1
            nt = transl.count_ops(e) >= 2 or simplab.has_mem(e)
            res.case(nontrivial_key=repr(e) if nt else None,
                     sample={"expr": str(e)} if nt and cnt[0] % 97 == 0 else None)
            for b, d, env in fails:
                res.fail(b, d, {"expr": simplab.ser(e), "env": transl.env_to_case(env)})
        try:
            hyp.survey(strategy(), nex, seed, one)
        finally:
            if H.scratch:
                shutil.rmtree(H.scratch, ignore_errors=True)
                H.scratch = None
        return res

    def _judge_case(self, case):
        e = simplab.deser(case["expr"])
        return H.judge_case(e, transl.env_from_case(case["env"], Env))

    def replay(self, case):
        fails = self._judge_case(case)
        if not fails:
            return None
        want = case.get("_bucket")
        for b, d in fails:
            if want is None or b == want:
                return Failure(b, d, case)
        return Failure(fails[0][0], fails[0][1], case)

    def shrink(self, failure, tier):
        case = failure.case
        e = simplab.deser(case["expr"])

        def pred(x):
            return any(b == failure.bucket for b, _ in self._judge_case(dict(case, expr=simplab.ser(x))))
        small = simplab.shrink_expr(e, pred, budget=200 if tier == "quick" else 1000)
        c = dict(case, expr=simplab.ser(small))
        for b, d in self._judge_case(c):
            if b == failure.bucket:
                return Failure(b, d, c)
        return failure


CHECK = C06()
