"""C47 — emulated OS helper functions return the documented results.

The Python stubs of miasm.os_dep.win_api_x86_32 and miasm.os_dep.linux_stdlib are called on an x86_32 jitter
(python engine) exactly as the emulated program reaches them: arguments and return address pushed on the stack,
pointer arguments designating buffers of a scratch page of the VM.  Observed: EAX (EDX:EAX for 64-bit results)
and the whole scratch page after the call.

Oracle: plain Python integers and bytes written from the documentation of each function (64-bit modular
arithmetic, common-prefix length, textbook CRC-32, C string / memory functions on byte and 16-bit-unit arrays).
The expected scratch page is the initial page with the documented writes applied: any other modified byte is a
breach ("memory").
"""
from vlib.runner import Check, ShardResult, Failure

ARENA = 0x200000
ARENA_SIZE = 0x1000
FILL = 0xCC
BUF1 = 0x100
BUF2 = 0x800
RET = 0x1337beef
M32 = 0xffffffff
M64 = (1 << 64) - 1

CP1252_UNDEFINED = {0x81, 0x8d, 0x8f, 0x90, 0x9d}

_proc = {}


def get_jitter():
    if "jit" not in _proc:
        import logging
        from vlib.quiet import quiet_stdout
        from miasm.analysis.machine import Machine
        from miasm.core.locationdb import LocationDB
        from miasm.jitter.csts import PAGE_READ, PAGE_WRITE
        with quiet_stdout():
            import miasm.os_dep.win_api_x86_32 as winapi
        import miasm.os_dep.linux_stdlib as lstd
        jit = Machine("x86_32").jitter(LocationDB(), "python")
        jit.init_stack()
        jit.vm.add_memory_page(ARENA, PAGE_READ | PAGE_WRITE, bytes([FILL]) * ARENA_SIZE, "arena")
        for name in ("win_api_x86_32", "jit function call", "vmmngr"):
            logging.getLogger(name).setLevel(logging.ERROR)
        _proc["jit"] = jit
        _proc["win"] = winapi
        _proc["lin"] = lstd
    return _proc["jit"], _proc["win"], _proc["lin"]


# ---------------------------------------------------------------------------------------------
# reference implementations


def crc32_ref(data, init):
    """CRC-32 (IEEE 802.3, reflected, polynomial 0xEDB88320) continued from a previous value `init`"""
    crc = init ^ M32
    for b in data:
        crc ^= b
        for _ in range(8):
            crc = (crc >> 1) ^ (0xEDB88320 if crc & 1 else 0)
    return crc ^ M32


def sext32(x):
    return x - (1 << 32) if x & 0x80000000 else x


def sign(x):
    return (x > 0) - (x < 0)


def ascii_lower(units):
    return [u + 32 if 0x41 <= u <= 0x5a else u for u in units]


def wellformed(units):
    """drop lone surrogates (the derivation of a related string may split a pair)"""
    out = []
    i = 0
    while i < len(units):
        u = units[i]
        if 0xd800 <= u <= 0xdbff and i + 1 < len(units) and 0xdc00 <= units[i + 1] <= 0xdfff:
            out.extend(units[i:i + 2])
            i += 2
            continue
        if not 0xd800 <= u <= 0xdfff:
            out.append(u)
        i += 1
    return out


def w_bytes(units):
    return b"".join(u.to_bytes(2, "little") for u in units)


# name -> (module, stub name, family)
FUNCS = {
    "RtlLargeIntegerAdd": ("win", "ntdll_RtlLargeIntegerAdd", "int"),
    "RtlLargeIntegerSubtract": ("win", "ntdll_RtlLargeIntegerSubtract", "int"),
    "RtlLargeIntegerShiftRight": ("win", "ntdll_RtlLargeIntegerShiftRight", "int"),
    "RtlEnlargedUnsignedMultiply": ("win", "ntdll_RtlEnlargedUnsignedMultiply", "int"),
    "RtlExtendedIntegerMultiply": ("win", "ntdll_RtlExtendedIntegerMultiply", "int"),
    "RtlCompareMemory": ("win", "ntdll_RtlCompareMemory", "mem2"),
    "memcmp": ("win", "msvcrt_memcmp", "mem2"),
    "RtlComputeCrc32": ("win", "ntdll_RtlComputeCrc32", "crc"),
    "memcpy": ("win", "msvcrt_memcpy", "copy"),
    "xxx_memcpy": ("lin", "xxx_memcpy", "copy"),
    "RtlMoveMemory": ("win", "ntdll_RtlMoveMemory", "copy"),
    "memset": ("win", "msvcrt_memset", "set"),
    "ntdll_memset": ("win", "ntdll_memset", "set"),
    "xxx_memset": ("lin", "xxx_memset", "set"),
    "lstrlenA": ("win", "kernel32_lstrlenA", "a1"),
    "lstrlen": ("win", "kernel32_lstrlen", "a1"),
    "strlen": ("win", "msvcrt_strlen", "a1"),
    "xxx_strlen": ("lin", "xxx_strlen", "a1"),
    "lstrcpyA": ("win", "kernel32_lstrcpyA", "a2"),
    "lstrcpy": ("win", "kernel32_lstrcpy", "a2"),
    "_mbscpy": ("win", "msvcrt__mbscpy", "a2"),
    "xxx_strcpy": ("lin", "xxx_strcpy", "a2"),
    "lstrcatA": ("win", "kernel32_lstrcatA", "a2"),
    "lstrcpyn": ("win", "kernel32_lstrcpyn", "a2n"),
    "lstrcmpA": ("win", "kernel32_lstrcmpA", "a2"),
    "lstrcmpiA": ("win", "kernel32_lstrcmpiA", "a2"),
    "lstrcmpi": ("win", "kernel32_lstrcmpi", "a2"),
    "xxx_strcmp": ("lin", "xxx_strcmp", "a2"),
    "xxx_strncmp": ("lin", "xxx_strncmp", "a2n"),
    "StrCmpNIA": ("win", "shlwapi_StrCmpNIA", "a2n"),
    "strrchr": ("win", "msvcrt_strrchr", "a1c"),
    "lstrlenW": ("win", "kernel32_lstrlenW", "w1"),
    "wcslen": ("win", "msvcrt_wcslen", "w1"),
    "lstrcpyW": ("win", "kernel32_lstrcpyW", "w2"),
    "wcscpy": ("win", "msvcrt_wcscpy", "w2"),
    "lstrcatW": ("win", "kernel32_lstrcatW", "w2"),
    "wcscat": ("win", "msvcrt_wcscat", "w2"),
    "lstrcmpW": ("win", "kernel32_lstrcmpW", "w2"),
    "wcscmp": ("win", "msvcrt_wcscmp", "w2"),
    "lstrcmpiW": ("win", "kernel32_lstrcmpiW", "w2"),
    "_wcsicmp": ("win", "msvcrt__wcsicmp", "w2"),
    "_wcsnicmp": ("win", "msvcrt__wcsnicmp", "w2n"),
    "wcsncpy": ("win", "msvcrt_wcsncpy", "w2n"),
    "wcsrchr": ("win", "msvcrt_wcsrchr", "w1c"),
}


CASE_INSENSITIVE = ("lstrcmpiA", "lstrcmpi", "StrCmpNIA", "lstrcmpiW", "_wcsicmp", "_wcsnicmp")


class Dropped(Exception):
    pass


def plan(case):
    """-> (argv, arena writes [(offset, bytes)], expected) where expected is a dict:
    ret: ("eax", v) | ("edx_eax", v64) | ("sign", s) | ("any",)
    writes: [(offset, bytes)] documented modifications of the arena
    pred: state predicate for the bucket ('' or ':xxx')"""
    fn = case["fn"]
    a = case["args"]
    fam = FUNCS[fn][2]
    pred = ""
    init = []
    writes = []
    if fam == "int":
        if fn == "RtlLargeIntegerAdd":
            x, y = a["a"], a["b"]
            argv = [x & M32, x >> 32, y & M32, y >> 32]
            ret = ("edx_eax", (x + y) & M64)
            if (x & M32) + (y & M32) > M32:
                pred = ":carry-across-bit-32"
        elif fn == "RtlLargeIntegerSubtract":
            x, y = a["a"], a["b"]
            argv = [x & M32, x >> 32, y & M32, y >> 32]
            ret = ("edx_eax", (x - y) & M64)
        elif fn == "RtlLargeIntegerShiftRight":
            x, n = a["a"], a["n"]
            if not 0 <= n <= 63:
                raise Dropped("shift count outside 0..63 (CCHAR ShiftCount, result undefined)")
            argv = [x & M32, x >> 32, n]
            ret = ("edx_eax", x >> n)
        elif fn == "RtlEnlargedUnsignedMultiply":
            argv = [a["a"] & M32, a["b"] & M32]
            ret = ("edx_eax", (a["a"] & M32) * (a["b"] & M32))
        else:
            x, m = a["a"], a["b"] & M32
            argv = [x & M32, x >> 32, m]
            # LARGE_INTEGER RtlExtendedIntegerMultiply(LARGE_INTEGER Multiplicand, LONG Multiplier): signed
            ret = ("edx_eax", (x * sext32(m)) & M64)
            if m & 0x80000000:
                pred = ":negative-multiplier"
        return argv, init, {"ret": ret, "writes": writes, "pred": pred}
    if fam == "mem2":
        d1, d2 = bytes.fromhex(a["d1"]), bytes.fromhex(a["d2"])
        n = min(a["n"], len(d1), len(d2))
        init = [(BUF1, d1), (BUF2, d2)]
        argv = [ARENA + BUF1, ARENA + BUF2, n]
        if n == 0:
            pred = ":zero-length"
        if fn == "RtlCompareMemory":
            k = 0
            while k < n and d1[k] == d2[k]:
                k += 1
            ret = ("eax", k)
        else:
            ret = ("sign", sign((d1[:n] > d2[:n]) - (d1[:n] < d2[:n])))
        return argv, init, {"ret": ret, "writes": writes, "pred": pred}
    if fam == "crc":
        d = bytes.fromhex(a["d"])
        init = [(BUF1, d)]
        argv = [a["init"] & M32, ARENA + BUF1, len(d)]
        if not d:
            pred = ":zero-length"
        return argv, init, {"ret": ("eax", crc32_ref(d, a["init"] & M32)), "writes": [], "pred": pred}
    if fam == "copy":
        d = bytes.fromhex(a["d"])
        n = min(a["n"], len(d))
        src = BUF1 + a["soff"]
        if fn == "RtlMoveMemory":
            dst = BUF1 + a["doff"]          # may overlap the source: memmove semantics
        else:
            dst = BUF2 + a["doff"]          # memcpy: regions must not overlap
        init = [(src, d)]
        argv = [ARENA + dst, ARENA + src, n]
        writes = [(dst, d[:n])]
        if n == 0:
            pred = ":zero-length"
        ret = ("any",) if fn == "RtlMoveMemory" else ("eax", ARENA + dst)
        return argv, init, {"ret": ret, "writes": writes, "pred": pred}
    if fam == "set":
        n, c = a["n"], a["c"] & M32
        argv = [ARENA + BUF1, c, n]
        writes = [(BUF1, bytes([c & 0xff]) * n)]
        if c > 0xff:
            pred = ":fill-value-above-0xff"
        elif n == 0:
            pred = ":zero-length"
        return argv, init, {"ret": ("eax", ARENA + BUF1), "writes": writes, "pred": pred}
    if fam in ("a1", "a2", "a2n", "a1c"):
        s1 = bytes.fromhex(a["s1"])
        s2 = bytes.fromhex(a.get("s2", ""))
        assert 0 not in s1 and 0 not in s2
        # strings the stub reads (and decodes): the copy functions never read their destination
        read = s2 if fn in ("lstrcpyA", "lstrcpy", "_mbscpy", "lstrcpyn", "xxx_strcpy") else s1 + s2
        undefined = any(b in CP1252_UNDEFINED for b in read)
        c1range = any(0x80 <= b <= 0x9f for b in s1 + s2)
        high = any(b >= 0x80 for b in s1 + s2)
        if undefined and FUNCS[fn][0] == "win":
            pred = ":byte-undefined-in-cp1252"
        init = [(BUF1, s1 + b"\0"), (BUF2, s2 + b"\0")]
        p1, p2 = ARENA + BUF1, ARENA + BUF2
        if fam == "a1":
            if not s1:
                pred = pred or ":empty-string"
            return [p1], init, {"ret": ("eax", len(s1)), "writes": [], "pred": pred}
        if fam == "a1c":
            c = a["c"] & M32
            ch = c & 0xff
            full = s1 + b"\0"
            k = full.rfind(bytes([ch]))
            if k < 0:
                pred = pred or ":character-absent"
            elif ch == 0:
                pred = pred or ":search-for-terminator"
            elif ch >= 0x80:
                pred = pred or ":character-above-0x7f"
            if c > 0xff:
                pred = pred or ":int-argument-above-0xff"
            return [p1, c], init, {"ret": ("eax", 0 if k < 0 else p1 + k), "writes": [], "pred": pred}
        if fn in ("lstrcpyA", "lstrcpy", "_mbscpy", "xxx_strcpy"):
            if not s2:
                pred = pred or ":empty-string"
            return [p1, p2], init, {"ret": ("eax", p1), "writes": [(BUF1, s2 + b"\0")], "pred": pred}
        if fn == "lstrcatA":
            if not s1 or not s2:
                pred = pred or ":empty-string"
            return [p1, p2], init, {"ret": ("eax", p1), "writes": [(BUF1, s1 + s2 + b"\0")], "pred": pred}
        if fn == "lstrcpyn":
            n = a["n"]
            if n == 0:
                pred = pred or ":zero-length"
                w = []
            else:
                w = [(BUF1, s2[:n - 1] + b"\0")]
            return [p1, p2, n], init, {"ret": ("eax", p1), "writes": w, "pred": pred}
        # comparisons
        if fn in ("lstrcmpA", "xxx_strcmp"):
            if c1range and FUNCS[fn][0] == "win":
                raise Dropped("ANSI comparison with bytes 0x80..0x9f (code-page dependent order)")
            return [p1, p2], init, {"ret": ("sign", sign((s1 > s2) - (s1 < s2))), "writes": [], "pred": pred}
        if fn == "xxx_strncmp":
            n = a["n"]
            if n == 0:
                pred = ":zero-length"
            return [p1, p2, n], init, {"ret": ("sign", sign((s1[:n] > s2[:n]) - (s1[:n] < s2[:n]))), "writes": [],
                                       "pred": pred}
        if fn in ("lstrcmpiA", "lstrcmpi", "StrCmpNIA"):
            if high:
                raise Dropped("case-insensitive ANSI comparison of non-ASCII bytes (locale dependent)")
            l1, l2 = ascii_lower(list(s1)), ascii_lower(list(s2))
            if fn == "StrCmpNIA":
                n = a["n"]
                if n == 0:
                    pred = ":zero-length"
                l1, l2 = l1[:n], l2[:n]
                return [p1, p2, n], init, {"ret": ("sign", sign((l1 > l2) - (l1 < l2))), "writes": [], "pred": pred}
            return [p1, p2], init, {"ret": ("sign", sign((l1 > l2) - (l1 < l2))), "writes": [], "pred": pred}
        raise ValueError(fn)
    if fam in ("w1", "w2", "w2n", "w1c"):
        u1, u2 = list(a["s1"]), list(a.get("s2", []))
        assert 0 not in u1 and 0 not in u2
        astral = any(0xd800 <= u <= 0xdfff for u in u1 + u2)
        if astral:
            pred = ":surrogate-pair"
        init = [(BUF1, w_bytes(u1 + [0])), (BUF2, w_bytes(u2 + [0]))]
        p1, p2 = ARENA + BUF1, ARENA + BUF2
        if fam == "w1":
            if not u1:
                pred = pred or ":empty-string"
            return [p1], init, {"ret": ("eax", len(u1)), "writes": [], "pred": pred}
        if fam == "w1c":
            c = a["c"] & 0xffff
            full = u1 + [0]
            ks = [i for i, u in enumerate(full) if u == c]
            if not ks:
                pred = pred or ":character-absent"
            elif c == 0:
                pred = pred or ":search-for-terminator"
            elif c >= 0x80:
                pred = pred or ":character-above-0x7f"
            return [p1, c], init, {"ret": ("eax", p1 + 2 * ks[-1] if ks else 0), "writes": [], "pred": pred}
        if fn in ("lstrcpyW", "wcscpy"):
            if not u2:
                pred = pred or ":empty-string"
            return [p1, p2], init, {"ret": ("eax", p1), "writes": [(BUF1, w_bytes(u2 + [0]))], "pred": pred}
        if fn in ("lstrcatW", "wcscat"):
            if not u1 or not u2:
                pred = pred or ":empty-string"
            return [p1, p2], init, {"ret": ("eax", p1), "writes": [(BUF1, w_bytes(u1 + u2 + [0]))], "pred": pred}
        if fn == "wcsncpy":
            n = a["n"]
            if n == 0:
                pred = pred or ":zero-length"
            body = u2[:n] + [0] * (n - len(u2[:n]))
            return [p1, p2, n], init, {"ret": ("eax", p1), "writes": [(BUF1, w_bytes(body))] if n else [], "pred": pred}
        if fn in ("lstrcmpW", "wcscmp"):
            if astral:
                raise Dropped("wide comparison with surrogate pairs (code unit vs code point order)")
            return [p1, p2], init, {"ret": ("sign", sign((u1 > u2) - (u1 < u2))), "writes": [], "pred": pred}
        if fn in ("lstrcmpiW", "_wcsicmp", "_wcsnicmp"):
            if any(u >= 0x80 for u in u1 + u2):
                raise Dropped("case-insensitive wide comparison of non-ASCII characters (locale dependent)")
            l1, l2 = ascii_lower(u1), ascii_lower(u2)
            if fn == "_wcsnicmp":
                n = a["n"]
                if n == 0:
                    pred = ":zero-length"
                l1, l2 = l1[:n], l2[:n]
                return [p1, p2, n], init, {"ret": ("sign", sign((l1 > l2) - (l1 < l2))), "writes": [], "pred": pred}
            return [p1, p2], init, {"ret": ("sign", sign((l1 > l2) - (l1 < l2))), "writes": [], "pred": pred}
        raise ValueError(fn)
    raise ValueError(fam)


def judge(case, stats=None):
    """-> (bucket, detail) | None"""
    from vlib.quiet import quiet_stderr
    jit, win, lin = get_jitter()
    fn = case["fn"]
    modname, stub, fam = FUNCS[fn]
    try:
        argv, init, exp = plan(case)
    except Dropped as d:
        if stats is not None:
            stats.dropped[str(d)] += 1
        return None
    f = getattr(win if modname == "win" else lin, stub)
    page = bytearray([FILL]) * ARENA_SIZE
    for off, data in init:
        page[off:off + len(data)] = data
    jit.vm.set_mem(ARENA, bytes(page))
    esp = jit.cpu.ESP
    jit.cpu.EAX = 0x5a5a5a5a
    jit.cpu.EDX = 0xa5a5a5a5
    jit.func_prepare_stdcall(RET, *argv)
    pred = exp["pred"]
    if exp["ret"][0] == "sign" and exp["ret"][1] < 0 and not pred:
        pred = ":negative-result"
    desc = "%s(%s)" % (stub, ", ".join("0x%x" % v for v in argv))
    if init:
        desc += " with " + ", ".join("[0x%x]=%r" % (ARENA + off, bytes(d)) for off, d in init)
    try:
        with quiet_stderr():
            f(jit)
    except Exception as ex:
        return ("%s:exception:%s%s" % (fn, type(ex).__name__, pred), "%s raised %r" % (desc, ex))
    finally:
        jit.cpu.ESP = esp
    if jit.pc != RET:
        return ("%s:return-address" % fn, "%s returned to 0x%x" % (desc, jit.pc))
    eax, edx = jit.cpu.EAX, jit.cpu.EDX
    kind = exp["ret"][0]
    if kind == "eax":
        if eax != exp["ret"][1] & M32:
            return ("%s:result%s" % (fn, pred), "%s = 0x%x, expected 0x%x" % (desc, eax, exp["ret"][1]))
    elif kind == "edx_eax":
        got = (edx << 32) | eax
        if got != exp["ret"][1]:
            return ("%s:result%s" % (fn, pred), "%s = EDX:EAX 0x%016x, expected 0x%016x" % (desc, got, exp["ret"][1]))
    elif kind == "sign":
        got = sign(sext32(eax))
        if got != exp["ret"][1]:
            return ("%s:result%s" % (fn, pred), "%s = 0x%x (sign %+d), expected sign %+d" % (desc, eax, got, exp["ret"][1]))
    after = jit.vm.get_mem(ARENA, ARENA_SIZE)
    for off, data in exp["writes"]:
        page[off:off + len(data)] = data
    if after != bytes(page):
        k = next(i for i in range(ARENA_SIZE) if after[i] != page[i])
        lo = max(k - 4, 0)
        return ("%s:memory%s" % (fn, pred), "%s: byte at 0x%x is 0x%02x, expected 0x%02x; memory %s expected %s"
                % (desc, ARENA + k, after[k], page[k], after[lo:k + 24].hex(), bytes(page[lo:k + 24]).hex()))
    return None


def nontrivial(case):
    """carry across bit 32, zero length, or empty string"""
    a = case["args"]
    fam = FUNCS[case["fn"]][2]
    if fam == "int":
        x, y = a.get("a", 0), a.get("b", 0)
        if case["fn"] in ("RtlLargeIntegerAdd",):
            return (x & M32) + (y & M32) > M32
        if case["fn"] == "RtlLargeIntegerSubtract":
            return (x & M32) < (y & M32)
        if case["fn"] == "RtlLargeIntegerShiftRight":
            return a["n"] and (x >> 32) != 0
        return (x & M32) * (y & M32) > M32
    if "n" in a and a["n"] == 0:
        return True
    for k in ("s1", "s2", "d", "d1"):
        if k in a and len(a[k]) == 0:
            return True
    return False


# ---------------------------------------------------------------------------------------------
# generator


def case_strategy():
    from hypothesis import strategies as st
    u32 = st.one_of(st.sampled_from([0, 1, 2, 0x7fffffff, 0x80000000, 0xffffffff, 0xfffffffe, 0x10000, 0xffff]),
                    st.integers(0, M32))
    u64 = st.one_of(st.builds(lambda h, l: (h << 32) | l, u32, u32), st.integers(0, M64))
    abyte = st.one_of(st.sampled_from(list(b"abcABCxyzXYZ019 ._\\/:%[]`{@")), st.sampled_from(list(b"abAB")),
                      st.integers(1, 0x7f), st.sampled_from([0xe9, 0xc9, 0xff, 0xa0, 0x80, 0x9f, 0x8a, 0x9a]),
                      st.integers(0x80, 0xff))
    astr = st.lists(abyte, max_size=12).map(bytes)
    wunit = st.one_of(st.sampled_from([ord(c) for c in "abcABCxyzXYZ019 ._\\"]), st.sampled_from([ord(c) for c in "abAB"]),
                      st.integers(1, 0x7f), st.sampled_from([0xe9, 0xc9, 0xff, 0x100, 0x17f, 0x3b1, 0x4e2d, 0xfffd, 0xffff, 0xfeff]),
                      st.integers(0x80, 0xd7ff))

    @st.composite
    def wstr(draw):
        units = draw(st.lists(wunit, max_size=10))
        if draw(st.integers(0, 11)) == 0:
            k = draw(st.integers(0, len(units)))
            units = units[:k] + [0xd83d, 0xde00] + units[k:]
        return units

    def related(draw, s, mk, elem):
        """a second string related to s: equal, prefix, one element changed, case flipped, independent"""
        mode = draw(st.integers(0, 6))
        s = list(s)
        if mode == 0:
            return s
        if mode == 6 and s:
            # one element differing by a single bit (bit 7 and bit 0 favoured: sign / lowest-bit tricks)
            k = draw(st.integers(0, len(s) - 1))
            bit = draw(st.sampled_from([7, 7, 0, 0, 1, 2, 3, 4, 5, 6]))
            return s[:k] + [s[k] ^ (1 << bit)] + s[k + 1:]
        if mode == 1:
            return s[:draw(st.integers(0, len(s)))]
        if mode == 2 and s:
            k = draw(st.integers(0, len(s) - 1))
            return s[:k] + [draw(elem)] + s[k + 1:]
        if mode == 3:
            return [u ^ 0x20 if (0x41 <= u <= 0x5a or 0x61 <= u <= 0x7a) and draw(st.booleans()) else u for u in s]
        if mode == 4:
            return s + [draw(elem)]
        return list(draw(mk))

    names = sorted(FUNCS)

    @st.composite
    def gen(draw):
        fn = draw(st.sampled_from(names))
        fam = FUNCS[fn][2]
        a = {}
        if fam == "int":
            a["a"] = draw(u64)
            a["b"] = draw(u64 if fn in ("RtlLargeIntegerAdd", "RtlLargeIntegerSubtract") else u32)
            if fn == "RtlLargeIntegerShiftRight":
                a["n"] = draw(st.one_of(st.integers(0, 63), st.sampled_from([0, 1, 31, 32, 33, 63])))
            if fn in ("RtlLargeIntegerAdd", "RtlLargeIntegerSubtract") and draw(st.booleans()):
                a["b"] = draw(st.sampled_from([a["a"], (a["a"] + 1) & M64, (-a["a"]) & M64, a["a"] >> 32, a["a"] & M32]))
        elif fam == "mem2":
            d1 = draw(st.binary(max_size=16))
            d2 = bytes(related(draw, d1, st.binary(max_size=16).map(list), st.integers(0, 255)))
            n = draw(st.one_of(st.just(0), st.integers(0, 16), st.just(min(len(d1), len(d2)))))
            a.update(d1=d1.hex(), d2=d2.hex(), n=n)
        elif fam == "crc":
            a.update(d=draw(st.binary(max_size=40)).hex(), init=draw(st.one_of(st.just(0), st.just(0), u32)))
        elif fam == "copy":
            d = draw(st.binary(max_size=24))
            a.update(d=d.hex(), n=draw(st.one_of(st.just(0), st.just(len(d)), st.integers(0, 24))),
                     soff=draw(st.integers(0, 16)), doff=draw(st.integers(0, 32)))
        elif fam == "set":
            a.update(n=draw(st.one_of(st.just(0), st.integers(0, 40))),
                     c=draw(st.one_of(st.integers(0, 255), st.sampled_from([0, 0xff, 0x100, 0x141, 0xffffffff, 0xffffff80]))))
        elif fam in ("a1", "a2", "a2n", "a1c"):
            s1 = draw(astr)
            a["s1"] = s1.hex()
            if fam in ("a2", "a2n"):
                s2 = bytes(u for u in related(draw, s1, astr.map(list), abyte) if u)
                if fn in CASE_INSENSITIVE:
                    s1 = bytes(u for u in s1 if u < 0x80)
                    s2 = bytes(u for u in s2 if u < 0x80)
                    a["s1"] = s1.hex()
                a["s2"] = s2.hex()
            if fam == "a2n":
                a["n"] = draw(st.one_of(st.just(0), st.integers(0, 14), st.just(len(s1)), st.just(len(s1) + 1)))
            if fam == "a1c":
                a["c"] = draw(st.one_of(st.sampled_from(list(s1) or [0x61]), st.just(0), abyte,
                                        st.sampled_from([0x161, 0xffffff61])))
        else:
            u1 = draw(wstr())
            a["s1"] = u1
            if fam in ("w2", "w2n"):
                a["s2"] = wellformed([u for u in related(draw, u1, wstr(), wunit) if u])
            if fn in CASE_INSENSITIVE:
                # only ASCII is judged for the case-insensitive comparisons
                a["s1"] = [u for u in a["s1"] if u < 0x80]
                a["s2"] = [u for u in a["s2"] if u < 0x80]
            if fam == "w2n":
                a["n"] = draw(st.one_of(st.just(0), st.integers(0, 14), st.just(len(u1)), st.just(len(u1) + 1)))
            if fam == "w1c":
                a["c"] = draw(st.one_of(st.sampled_from(u1 or [0x61]), st.just(0), wunit))
        return {"fn": fn, "args": a}
    return gen()


class C47(Check):
    pid = "C47"
    needs_build = True
    rule = ("Hypothesis cases over 44 stubs (ntdll RtlLargeIntegerAdd/Subtract/ShiftRight, RtlEnlargedUnsignedMultiply, "
            "RtlExtendedIntegerMultiply, RtlCompareMemory, RtlComputeCrc32, RtlMoveMemory, memset; kernel32 "
            "lstrlen/lstrcpy/lstrcpyn/lstrcat/lstrcmp/lstrcmpi A and W; msvcrt strlen, strrchr, _mbscpy, memcpy, memset, "
            "memcmp, wcslen, wcscpy, wcsncpy, wcscat, wcscmp, _wcsicmp, _wcsnicmp, wcsrchr; shlwapi StrCmpNIA; "
            "linux_stdlib memcpy, memset, strlen, strcpy, strcmp, strncmp) called on an x86_32 python jitter with "
            "stack arguments; integers mix boundary values (0, 1, 2^31-1, 2^31, 2^32-1) and uniform ones, second "
            "operands related to the first (equal, +1, negation, halves); byte / 16-bit strings of length 0..12 over "
            "ASCII, Latin-1, 0x80..0x9f, CJK, occasional surrogate pairs, the second string related to the first "
            "(equal, prefix, one element changed, case flipped, extended, independent); lengths include 0. Judged: "
            "EAX / EDX:EAX / sign of EAX and the whole scratch page after the call. Non-trivial: carry or borrow "
            "across bit 32 (product above 2^32), a zero length, or an empty string; distinct by (function, arguments).")
    assumptions = ["comparison results are judged by sign only (C leaves the magnitude open)",
                   "ANSI comparisons with bytes 0x80..0x9f, case-insensitive comparisons of non-ASCII characters and wide "
                   "comparisons with surrogate pairs are not judged (code page / locale dependent order)",
                   "wide strings are well-formed UTF-16 (no lone surrogates); shift counts are 0..63",
                   "memcpy is given non-overlapping regions, RtlMoveMemory possibly overlapping ones (memmove)",
                   "RtlExtendedIntegerMultiply takes a signed 32-bit multiplier (LONG), RtlComputeCrc32 continues a "
                   "standard CRC-32 from its first argument"]
    level_text = ("randomized differential testing of the numeric, memory and string stubs against plain Python "
                  "integer / bytes models, including the memory they must leave untouched")
    technique = "property-based differential testing (Hypothesis argument tuples, Python integer/bytes oracle)"

    def nshards(self, tier):
        return 16

    def run_shard(self, tier, seed, shard, nshards):
        from vlib import hyp
        res = ShardResult()
        n = 8000 if tier == "thorough" else 2000
        cnt = [0]

        def one(case):
            cnt[0] += 1
            r = judge(case, res)
            nt = nontrivial(case)
            res.case(nontrivial_key=repr(case) if nt else None, sample=case if nt and cnt[0] % 500 == 1 else None)
            res.counters["fn:" + case["fn"]] += 1
            if r is not None:
                res.fail(r[0], r[1], case)
        hyp.survey(case_strategy(), n, seed, one)
        return res

    def replay(self, case):
        r = judge(case)
        if r is None:
            return None
        return Failure(r[0], r[1], case)

    def shrink(self, failure, tier):
        """shorten the strings / byte arrays, keeping the bucket"""
        case = failure.case
        bucket = failure.bucket

        def ok(c):
            try:
                r = judge(c)
            except Exception:
                return None
            return r if r is not None and r[0] == bucket else None
        cur = {"fn": case["fn"], "args": dict(case["args"])}
        changed = True
        budget = 300
        while changed and budget > 0:
            changed = False
            for k in ("s1", "s2", "d", "d1", "d2"):
                v = cur["args"].get(k)
                if not v:
                    continue
                step = 2 if isinstance(v, str) else 1
                for i in range(0, len(v), step):
                    cand = {"fn": cur["fn"], "args": dict(cur["args"])}
                    cand["args"][k] = v[:i] + v[i + step:]
                    budget -= 1
                    if ok(cand):
                        cur = cand
                        changed = True
                        break
                if changed:
                    break
        r = ok(cur)
        if r:
            return Failure(r[0], r[1], cur)
        return failure


CHECK = C47()
