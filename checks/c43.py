"""C43 — ELF files round-trip through parse and build.

Corpus: compiled on the spot in a scratch directory from generated C sources (vlib.binlab.gen_c_source):
gcc -c (-O0/-O2/-Os, -g, -ffunction-sections -fPIC), gcc -m32 -c, gcc -nostdlib -static (64/32-bit, PIE),
gcc -shared (with and without libc, -z now), clang --target=<triple> -c for seven big-endian and five
little-endian triples (relocatable objects only: no foreign linker).

Judged per file
 * pristine: bytes(ELF(data)) == data; the parsed section headers, program headers, symbols, relocation
   entries and dynamic entries equal those read by an independent struct-level reader (binlab.parse_elf_raw);
 * api edits (Hypothesis): same-size content edits of sections the loader treats as opaque bytes, through
   section.content[a:b] = ..., section.content = ..., elf.virt.set(addr, ...): bytes(elf) == the original
   file with exactly those bytes replaced (computed on the raw file), and ELF(bytes(elf)) has the same
   sections / segments / symbols / relocations / dynamic entries and the new contents;
 * byte mutants (Hypothesis): bytes of opaque section contents replaced in the file: round trip is exact and
   the parsed structures are those of the original file;
 * table-field mutants: value fields (st_value, st_size, r_offset, r_addend, d_val) overwritten inside symbol /
   relocation / dynamic tables: round trip exact, parsed structures equal the independent reading of the mutant.
"""
import base64
import hashlib
import zlib

from vlib.runner import Check, ShardResult, Failure, derive_seed
from vlib import hyp, binlab


def snapshot(e):
    """Structures of a parsed miasm ELF as plain tuples."""
    secs = []
    for s in e.sh:
        sh = s.sh
        secs.append((bytes(sh.name), sh.type, sh.flags, sh.addr, sh.offset, sh.size, sh.link, sh.info,
                     sh.addralign, sh.entsize))
    segs = []
    for p in e.ph:
        ph = p.ph
        segs.append((ph.type, ph.offset, ph.vaddr, ph.paddr, ph.filesz, ph.memsz, ph.flags, ph.align))
    syms = {}
    rels = {}
    dyns = {}
    for i, s in enumerate(e.sh):
        if hasattr(s, "symtab"):
            syms[i] = [(bytes(y.name), y.value, y.size, y.info, y.other, y.shndx) for y in s.symtab]
        if hasattr(s, "reltab"):
            # (RELA tables are read with the REL entry layout at the table's stride: the loader does not
            # expose r_addend, so it is not part of the comparison)
            rels[i] = [(r.offset, r.info) for r in s.reltab]
        if hasattr(s, "dyntab"):
            dyns[i] = [(d.type, d.cstr.name) for d in s.dyntab]
    return {"sections": secs, "segments": segs, "symbols": syms, "relocs": rels, "dynamic": dyns}


def raw_snapshot(raw):
    secs = [(s["name_s"], s["type"], s["flags"], s["addr"], s["offset"], s["size"], s["link"], s["info"],
             s["addralign"], s["entsize"]) for s in raw["shdrs"]]
    segs = [(p["type"], p["offset"], p["vaddr"], p["paddr"], p["filesz"], p["memsz"], p["flags"], p["align"])
            for p in raw["phdrs"]]
    syms = {i: [(y["name"], y["value"], y["size"], y["info"], y["other"], y["shndx"]) for y in v]
            for i, v in raw["symtabs"].items()}
    rels = {i: [(r["offset"], r["info"]) for r in v] for i, v in raw["reltabs"].items()}
    dyns = {i: [tuple(d) for d in v] for i, v in raw["dynamic"].items()}
    return {"sections": secs, "segments": segs, "symbols": syms, "relocs": rels, "dynamic": dyns}


def diff_snap(a, b):
    """-> (part, text) of the first difference, or None"""
    for part in ("sections", "segments", "symbols", "relocs", "dynamic"):
        if a[part] != b[part]:
            x, y = a[part], b[part]
            if isinstance(x, dict):
                for k in sorted(set(x) | set(y)):
                    if x.get(k) != y.get(k):
                        xa, ya = x.get(k) or [], y.get(k) or []
                        for j in range(max(len(xa), len(ya))):
                            u = xa[j] if j < len(xa) else None
                            v = ya[j] if j < len(ya) else None
                            if u != v:
                                return part, "table in section %d entry %d: %r vs %r" % (k, j, u, v)
            else:
                for j in range(max(len(x), len(y))):
                    u = x[j] if j < len(x) else None
                    v = y[j] if j < len(y) else None
                    if u != v:
                        return part, "entry %d: %r vs %r" % (j, u, v)
            return part, "differ"
    return None


def _where(e):
    import traceback
    tb = traceback.extract_tb(e.__traceback__)
    for fr in reversed(tb):
        if "/miasm/" in fr.filename:
            return "%s:%s" % (fr.filename.split("/miasm/")[-1], fr.name)
    return "?"


def pack_file(data):
    return base64.b64encode(zlib.compress(bytes(data), 9)).decode()


def unpack_file(s):
    return zlib.decompress(base64.b64decode(s))


def table_fields(raw):
    """(file offset, width) of value fields inside symbol / relocation / dynamic tables."""
    out = []
    size = raw["size"]
    for idx, s in enumerate(raw["shdrs"]):
        ent = s["entsize"]
        if not ent or not s["size"]:
            continue
        n = s["size"] // ent
        if s["type"] in (2, 11):
            for k in range(1, n):
                base = s["offset"] + k * ent
                if size == 32:
                    out.append((base + 4, 4))
                    out.append((base + 8, 4))
                else:
                    out.append((base + 8, 8))
                    out.append((base + 16, 8))
        elif s["type"] in (4, 9):
            w = size // 8
            for k in range(n):
                base = s["offset"] + k * ent
                out.append((base, w))
                if s["type"] == 4:
                    out.append((base + 2 * w, w))
        elif s["type"] == 6:
            w = size // 8
            for k in range(n):
                out.append((s["offset"] + k * ent + w, w))
    return out


def judge(data, mode, edits):
    """data: ELF file bytes.  mode: pristine | api | bytes | table.  edits: list of small int tuples
    interpreted relative to the file.  -> (bucket, detail) | None"""
    binlab.quiet_loggers()
    from miasm.loader import elf_init
    data = bytes(data)
    try:
        raw = binlab.parse_elf_raw(data)
    except binlab.RawParseError as ex:
        raise RuntimeError("corpus file not readable by the independent reader: %s" % ex)
    cls = "%d%s" % (raw["size"], "le" if raw["sex"] == 1 else "be")
    opaque = binlab.elf_opaque_ranges(raw)

    def nobits_padding(b, expected):
        """root cause recognised: zero bytes appended up to the file offset of a NOBITS section lying beyond EOF"""
        if len(b) > len(expected) and b[:len(expected)] == expected and not b[len(expected):].strip(b"\x00"):
            for s in raw["shdrs"]:
                if s["type"] == 8 and s["offset"] == len(b) and s["offset"] > len(expected):
                    return ("roundtrip:nobits-offset-beyond-eof:padding-appended",
                            "file of %d bytes whose NOBITS section %r has sh_offset %#x (beyond the end of the file, it occupies "
                            "no file space): serialisation is %d bytes, the original followed by %d zero bytes"
                            % (len(expected), s["name_s"], s["offset"], len(b), len(b) - len(expected)))
        return None

    def parse(d, what):
        try:
            return elf_init.ELF(d), None
        except Exception as ex:
            return None, ("exception:%s:%s@%s" % (what, type(ex).__name__, _where(ex)), "%s raised %r" % (what, ex))

    def build(e, what):
        try:
            return bytes(e), None
        except Exception as ex:
            return None, ("exception:%s:%s@%s" % (what, type(ex).__name__, _where(ex)), "%s raised %r" % (what, ex))

    if mode == "pristine":
        e, err = parse(data, "ELF(data)")
        if err:
            return err
        b, err = build(e, "bytes(ELF(data))")
        if err:
            return err
        if b != data:
            r = nobits_padding(b, data)
            if r:
                return r
            d = binlab._first_diff(b, data)
            return ("roundtrip:pristine:%s" % cls, "bytes(ELF(data)) differs from data at offset %#x (lengths %d / %d)"
                    % (d, len(b), len(data)))
        df = diff_snap(snapshot(e), raw_snapshot(raw))
        if df:
            return ("parse:%s:%s" % (df[0], cls), "miasm vs independent reader: %s" % df[1])
        return None

    if mode == "bytes":
        mutated = bytearray(data)
        for sel, off, length, seed in edits:
            if not opaque:
                break
            lo, size, idx = opaque[sel % len(opaque)]
            length = 1 + length % min(size, 48)
            o = off % (size - length + 1)
            mutated[lo + o:lo + o + length] = binlab.blob(("m", seed), length, nonzero=False)
        mutated = bytes(mutated)
        e, err = parse(mutated, "ELF(mutant)")
        if err:
            return err
        b, err = build(e, "bytes(ELF(mutant))")
        if err:
            return err
        if b != mutated:
            r = nobits_padding(b, mutated)
            if r:
                return r
            d = binlab._first_diff(b, mutated)
            return ("roundtrip:byte-mutant:%s" % cls, "bytes(ELF(m)) differs from m at offset %#x" % d)
        df = diff_snap(snapshot(e), raw_snapshot(raw))
        if df:
            return ("byte-mutant:structures:%s" % df[0], "section-content bytes changed, parsed structures differ from the "
                    "original file: %s" % df[1])
        return None

    if mode == "table":
        fields = table_fields(raw)
        mutated = bytearray(data)
        for sel, off, length, seed in edits:
            if not fields:
                break
            fo, w = fields[sel % len(fields)]
            val = binlab.blob(("t", seed), w, nonzero=False)
            if length % 3 == 0:
                val = b"\xff" * w
            elif length % 3 == 1:
                val = bytes(w - 1) + b"\x01" if raw["sex"] == 2 else b"\x01" + bytes(w - 1)
            mutated[fo:fo + w] = val
        mutated = bytes(mutated)
        try:
            raw2 = binlab.parse_elf_raw(mutated)
        except binlab.RawParseError:
            return None
        e, err = parse(mutated, "ELF(table-mutant)")
        if err:
            return err
        b, err = build(e, "bytes(ELF(table-mutant))")
        if err:
            return err
        if b != mutated:
            r = nobits_padding(b, mutated)
            if r:
                return r
            d = binlab._first_diff(b, mutated)
            return ("roundtrip:table-mutant:%s" % cls, "bytes(ELF(m)) differs from m at offset %#x" % d)
        df = diff_snap(snapshot(e), raw_snapshot(raw2))
        if df:
            return ("table-mutant:parse:%s:%s" % (df[0], cls), "miasm vs independent reader: %s" % df[1])
        return None

    assert mode == "api"
    e, err = parse(data, "ELF(data)")
    if err:
        return err
    expected = bytearray(data)
    new_contents = {}
    applied = 0
    for sel, off, length, seed in edits:
        if not opaque:
            break
        lo, size, idx = opaque[sel % len(opaque)]
        sec = e.sh[idx]
        how = seed % 3
        try:
            if how == 0:
                length = 1 + length % min(size, 48)
                o = off % (size - length + 1)
                new = binlab.blob(("a", seed), length, nonzero=False)
                sec.content[o:o + length] = new
                what = "section.content[a:b] = data"
            elif how == 1:
                length, o = size, 0
                new = binlab.blob(("a", seed), size, nonzero=False)
                sec.content = new
                what = "section.content = data"
            else:
                # virtual view: only for allocated PROGBITS sections of files with an address space
                sh = raw["shdrs"][idx]
                length = 1 + length % min(size, 48)
                o = off % (size - length + 1)
                new = binlab.blob(("a", seed), length, nonzero=False)
                what = "virt.set(addr, data)"
                if sh["type"] != 1 or not (sh["flags"] & 2) or sh["addr"] == 0 or raw["ehdr"]["type"] == 1:
                    sec.content[o:o + length] = new
                    what = "section.content[a:b] = data"
                else:
                    # the address must resolve to this section (first match in section order)
                    first = None
                    for j, t in enumerate(raw["shdrs"]):
                        if t["addr"] <= sh["addr"] + o < t["addr"] + t["size"]:
                            first = j
                            break
                    if first != idx:
                        sec.content[o:o + length] = new
                        what = "section.content[a:b] = data"
                    else:
                        e.virt.set(sh["addr"] + o, new)
        except Exception as ex:
            return ("exception:edit:%s@%s" % (type(ex).__name__, _where(ex)),
                    "%s on section %d (%r) raised %r" % (what, idx, raw["shdrs"][idx]["name_s"], ex))
        expected[lo + o:lo + o + length] = new
        new_contents[idx] = bytes(expected[lo:lo + size])
        applied += 1
    expected = bytes(expected)
    b, err = build(e, "bytes(edited ELF)")
    if err:
        return err
    if b != expected:
        r = nobits_padding(b, expected)
        if r:
            return r
        d = binlab._first_diff(b, expected)
        inside = [i for (lo, size, i) in opaque if lo <= d < lo + size]
        return ("edit:serialised:%s" % ("in-edited-section" if inside and inside[0] in new_contents else "elsewhere"),
                "after %d same-size edits, bytes(elf) differs from the spliced original at offset %#x (lengths %d / %d)"
                % (applied, d, len(b), len(expected)))
    e2, err = parse(b, "ELF(bytes(edited ELF))")
    if err:
        return err
    df = diff_snap(snapshot(e2), raw_snapshot(raw))
    if df:
        return ("edit:structures:%s" % df[0], "re-parsed structures differ from the original file: %s" % df[1])
    for idx, c in new_contents.items():
        got = bytes(e2.sh[idx].content)
        if got != c:
            return ("edit:contents", "section %d content after re-parse differs at +%#x" % (idx, binlab._first_diff(got, c)))
    return None


def is_nontrivial(raw):
    has_sym = any(len(v) > 1 for v in raw["symtabs"].values())
    has_rel = any(len(v) > 0 for v in raw["reltabs"].values())
    return has_sym and has_rel


class C43(Check):
    pid = "C43"
    rule = ("corpus compiled per shard from generated C (26 recipes: gcc -c at 3 -O levels/-g/-ffunction-sections, -m32 -c, "
            "-nostdlib -static 64/32/PIE, -shared x4, clang -c for 7 big-endian + 5 little-endian triples) plus the four linked "
            "ELF samples of example/samples (ARM, AArch64, big-endian PowerPC, x86-64 PIE); per file: pristine "
            "round trip + parse vs independent reader, then Hypothesis cases of same-size API edits, byte mutants of opaque "
            "section contents and value-field mutants of symbol/relocation/dynamic tables. Non-trivial: file has a symbol "
            "table and relocation entries; distinct by (file hash, mode, edits).")
    assumptions = [
        "the independent reader (vlib.binlab.parse_elf_raw) follows the ELF gABI layouts for Ehdr/Shdr/Phdr/Sym/Rel/Rela/Dyn",
        "edited / mutated bytes belong to sections whose type the loader does not interpret (not SYMTAB/DYNSYM/STRTAB/"
        "REL/RELA/DYNAMIC/NOTE/NOBITS) and that overlap no header table; table-field mutants touch only st_value, st_size, "
        "r_offset, r_addend, d_val",
        "big-endian inputs are relocatable objects (no foreign linker in the sandbox) and the repository's md5_ppc32b executable",
    ]
    level_text = "generated-input search over toolchain output and mutants; no violation found is not a proof"
    technique = "round-trip differential against the raw file + independent ELF reader"

    def nshards(self, tier):
        return 16

    def run_shard(self, tier, seed, shard, nshards):
        from hypothesis import strategies as st
        res = ShardResult()
        nrec = len(binlab.elf_recipes())
        per = 24 if tier == "thorough" else 6
        picks = [(shard * per + j + derive_seed(seed, "rot") % nrec) % nrec for j in range(per)]
        ncases = 260 if tier == "thorough" else 40
        edit = st.tuples(st.integers(0, 63), st.integers(0, 0xFFFF), st.integers(0, 255), st.integers(0, 0xFFFF))
        case = st.tuples(st.sampled_from(["api", "api", "bytes", "bytes", "table"]), st.lists(edit, min_size=1, max_size=5))
        with binlab.Scratch("c43") as scratch:
            corpus = binlab.build_elf_corpus(scratch, "%d-%d" % (seed, shard), picks, res)
        extra = binlab.repo_elf_sample(shard)
        if extra is not None:
            corpus.append(extra)
        for n, (label, kind, data, src) in enumerate(corpus):
            raw = binlab.parse_elf_raw(data)
            nt = is_nontrivial(raw)
            fid = hashlib.blake2b(data, digest_size=8).hexdigest()
            packed = pack_file(data)
            res.counters["file:" + label] += 1
            res.counters["class:%d-bit-%s-%s" % (raw["size"], "le" if raw["sex"] == 1 else "be", kind)] += 1
            res.counters["opaque_ranges"] += len(binlab.elf_opaque_ranges(raw))
            r = judge(data, "pristine", [])
            res.case(nontrivial_key=(fid, "pristine") if nt else None,
                     sample={"label": label, "mode": "pristine", "size": len(data)} if n == 0 else None)
            if r is not None:
                res.fail(r[0], "%s: %s" % (label, r[1]), {"label": label, "elf_z": packed, "mode": "pristine", "edits": []})

            def one(c, data=data, label=label, nt=nt, fid=fid, packed=packed):
                mode, edits = c
                edits = [list(x) for x in edits]
                r = judge(data, mode, edits)
                res.case(nontrivial_key=(fid, mode, edits) if nt else None)
                res.counters["mode:" + mode] += 1
                if r is not None:
                    res.fail(r[0], "%s: %s" % (label, r[1]), {"label": label, "elf_z": packed, "mode": mode, "edits": edits})
            hyp.survey(case, ncases, derive_seed(seed, shard, n), one)
        if corpus:
            res.samples.append({"label": corpus[0][0], "source": corpus[0][3][:400]})
        return res

    def replay(self, case):
        data = unpack_file(case["elf_z"])
        r = judge(data, case["mode"], case["edits"])
        if r is None:
            return None
        return Failure(r[0], "%s: %s" % (case.get("label"), r[1]), case)

    def shrink(self, failure, tier):
        case = dict(failure.case)
        data = unpack_file(case["elf_z"])
        edits = list(case["edits"])

        def still(cand):
            r = judge(data, case["mode"], cand)
            return r is not None and r[0] == failure.bucket
        if len(edits) > 1:
            edits = hyp.ddmin_list(edits, still, budget=60)
        case["edits"] = edits
        r = judge(data, case["mode"], edits)
        if r is None or r[0] != failure.bucket:
            return failure
        return Failure(r[0], "%s: %s" % (case.get("label"), r[1]), case)


CHECK = C43()
