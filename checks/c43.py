"""C43 — ELF files round-trip through parse and build.

Corpus: compiled on the spot in a scratch directory from generated C sources (vlib.binlab.gen_c_source):
gcc -c (-O0/-O2/-Os, -g, -ffunction-sections -fPIC), gcc -m32 -c, gcc -nostdlib -static (64/32-bit, PIE),
gcc -shared (with and without libc, -z now), clang --target=<triple> -c for seven big-endian and five
little-endian triples (relocatable objects only: no foreign linker); five more recipes (static 64/32/PIE, shared,
-c) whose source puts 3..10 byte arrays of alignment 1 in sections of their own (.sec_a .. / .rsec_a ..), which the
linker lays out back to back: runs of 4..6 address-contiguous PROGBITS sections, several of equal size.

Judged per file
 * pristine: bytes(ELF(data)) == data; the parsed section headers, program headers, symbols, relocation
   entries and dynamic entries equal those read by an independent struct-level reader (binlab.parse_elf_raw);
 * api edits (Hypothesis): histories of 1..5 same-size content edits of sections the loader treats as opaque bytes,
   through section.content[a:b] = ..., section.content = ..., elf.virt.set(addr, ...) inside one section, one
   elf.virt write (set / [addr] / [a:b]) spanning 1..n sections of a run of address-contiguous PROGBITS sections,
   section.content = <content object of another section of the same size (same file, else a second parse of the
   file)> followed by an in-place patch of one of the two (the other keeps its bytes), descriptor bytes of the
   first record of a note section (slice or whole same-size content): bytes(elf) == the original
   file with exactly those bytes replaced (computed on the raw file), and ELF(bytes(elf)) has the same
   sections / segments / symbols / relocations / dynamic entries and the new contents;
 * byte mutants (Hypothesis): bytes of opaque section contents replaced in the file: round trip is exact and
   the parsed structures are those of the original file;
 * table-field mutants: value fields (st_value, st_size, r_offset, r_addend, d_val) overwritten inside symbol /
   relocation / dynamic tables: round trip exact, parsed structures equal the independent reading of the mutant.
"""
import base64
import hashlib
import zlib

from vlib.runner import Check, ShardResult, Failure, derive_seed
from vlib import hyp, binlab


def snapshot(e):
    """Structures of a parsed miasm ELF as plain tuples."""
    secs = []
    for s in e.sh:
        sh = s.sh
        secs.append((bytes(sh.name), sh.type, sh.flags, sh.addr, sh.offset, sh.size, sh.link, sh.info,
                     sh.addralign, sh.entsize))
    segs = []
    for p in e.ph:
        ph = p.ph
        segs.append((ph.type, ph.offset, ph.vaddr, ph.paddr, ph.filesz, ph.memsz, ph.flags, ph.align))
    syms = {}
    rels = {}
    dyns = {}
    for i, s in enumerate(e.sh):
        if hasattr(s, "symtab"):
            syms[i] = [(bytes(y.name), y.value, y.size, y.info, y.other, y.shndx) for y in s.symtab]
        if hasattr(s, "reltab"):
            # (RELA tables are read with the REL entry layout at the table's stride: the loader does not
            # expose r_addend, so it is not part of the comparison)
            rels[i] = [(r.offset, r.info) for r in s.reltab]
        if hasattr(s, "dyntab"):
            dyns[i] = [(d.type, d.cstr.name) for d in s.dyntab]
    return {"sections": secs, "segments": segs, "symbols": syms, "relocs": rels, "dynamic": dyns}


def raw_snapshot(raw):
    secs = [(s["name_s"], s["type"], s["flags"], s["addr"], s["offset"], s["size"], s["link"], s["info"],
             s["addralign"], s["entsize"]) for s in raw["shdrs"]]
    segs = [(p["type"], p["offset"], p["vaddr"], p["paddr"], p["filesz"], p["memsz"], p["flags"], p["align"])
            for p in raw["phdrs"]]
    syms = {i: [(y["name"], y["value"], y["size"], y["info"], y["other"], y["shndx"]) for y in v]
            for i, v in raw["symtabs"].items()}
    rels = {i: [(r["offset"], r["info"]) for r in v] for i, v in raw["reltabs"].items()}
    dyns = {i: [tuple(d) for d in v] for i, v in raw["dynamic"].items()}
    return {"sections": secs, "segments": segs, "symbols": syms, "relocs": rels, "dynamic": dyns}


def diff_snap(a, b):
    """-> (part, text) of the first difference, or None"""
    for part in ("sections", "segments", "symbols", "relocs", "dynamic"):
        if a[part] != b[part]:
            x, y = a[part], b[part]
            if isinstance(x, dict):
                for k in sorted(set(x) | set(y)):
                    if x.get(k) != y.get(k):
                        xa, ya = x.get(k) or [], y.get(k) or []
                        for j in range(max(len(xa), len(ya))):
                            u = xa[j] if j < len(xa) else None
                            v = ya[j] if j < len(ya) else None
                            if u != v:
                                return part, "table in section %d entry %d: %r vs %r" % (k, j, u, v)
            else:
                for j in range(max(len(x), len(y))):
                    u = x[j] if j < len(x) else None
                    v = y[j] if j < len(y) else None
                    if u != v:
                        return part, "entry %d: %r vs %r" % (j, u, v)
            return part, "differ"
    return None


def _where(e):
    import traceback
    tb = traceback.extract_tb(e.__traceback__)
    for fr in reversed(tb):
        if "/miasm/" in fr.filename:
            return "%s:%s" % (fr.filename.split("/miasm/")[-1], fr.name)
    return "?"


def pack_file(data):
    return base64.b64encode(zlib.compress(bytes(data), 9)).decode()


def unpack_file(s):
    return zlib.decompress(base64.b64decode(s))


def table_fields(raw):
    """(file offset, width) of value fields inside symbol / relocation / dynamic tables."""
    out = []
    size = raw["size"]
    for idx, s in enumerate(raw["shdrs"]):
        ent = s["entsize"]
        if not ent or not s["size"]:
            continue
        n = s["size"] // ent
        if s["type"] in (2, 11):
            for k in range(1, n):
                base = s["offset"] + k * ent
                if size == 32:
                    out.append((base + 4, 4))
                    out.append((base + 8, 4))
                else:
                    out.append((base + 8, 8))
                    out.append((base + 16, 8))
        elif s["type"] in (4, 9):
            w = size // 8
            for k in range(n):
                base = s["offset"] + k * ent
                out.append((base, w))
                if s["type"] == 4:
                    out.append((base + 2 * w, w))
        elif s["type"] == 6:
            w = size // 8
            for k in range(n):
                out.append((s["offset"] + k * ent + w, w))
    return out


def judge(data, mode, edits, stats=None):
    """data: ELF file bytes.  mode: pristine | api | bytes | table.  edits: list of small int tuples
    interpreted relative to the file.  -> (bucket, detail) | None"""
    binlab.quiet_loggers()
    from miasm.loader import elf_init
    data = bytes(data)
    try:
        raw = binlab.parse_elf_raw(data)
    except binlab.RawParseError as ex:
        raise RuntimeError("corpus file not readable by the independent reader: %s" % ex)
    cls = "%d%s" % (raw["size"], "le" if raw["sex"] == 1 else "be")
    opaque = binlab.elf_opaque_ranges(raw)

    def nobits_padding(b, expected):
        """root cause recognised: zero bytes appended up to the file offset of a NOBITS section lying beyond EOF"""
        if len(b) > len(expected) and b[:len(expected)] == expected and not b[len(expected):].strip(b"\x00"):
            for s in raw["shdrs"]:
                if s["type"] == 8 and s["offset"] == len(b) and s["offset"] > len(expected):
                    return ("roundtrip:nobits-offset-beyond-eof:padding-appended",
                            "file of %d bytes whose NOBITS section %r has sh_offset %#x (beyond the end of the file, it occupies "
                            "no file space): serialisation is %d bytes, the original followed by %d zero bytes"
                            % (len(expected), s["name_s"], s["offset"], len(b), len(b) - len(expected)))
        return None

    def parse(d, what):
        try:
            return elf_init.ELF(d), None
        except Exception as ex:
            return None, ("exception:%s:%s@%s" % (what, type(ex).__name__, _where(ex)), "%s raised %r" % (what, ex))

    def build(e, what):
        try:
            return bytes(e), None
        except Exception as ex:
            return None, ("exception:%s:%s@%s" % (what, type(ex).__name__, _where(ex)), "%s raised %r" % (what, ex))

    if mode == "pristine":
        e, err = parse(data, "ELF(data)")
        if err:
            return err
        b, err = build(e, "bytes(ELF(data))")
        if err:
            return err
        if b != data:
            r = nobits_padding(b, data)
            if r:
                return r
            d = binlab._first_diff(b, data)
            return ("roundtrip:pristine:%s" % cls, "bytes(ELF(data)) differs from data at offset %#x (lengths %d / %d)"
                    % (d, len(b), len(data)))
        df = diff_snap(snapshot(e), raw_snapshot(raw))
        if df:
            return ("parse:%s:%s" % (df[0], cls), "miasm vs independent reader: %s" % df[1])
        return None

    if mode == "bytes":
        mutated = bytearray(data)
        for sel, off, length, seed in edits:
            if not opaque:
                break
            lo, size, idx = opaque[sel % len(opaque)]
            length = 1 + length % min(size, 48)
            o = off % (size - length + 1)
            mutated[lo + o:lo + o + length] = binlab.blob(("m", seed), length, nonzero=False)
        mutated = bytes(mutated)
        e, err = parse(mutated, "ELF(mutant)")
        if err:
            return err
        b, err = build(e, "bytes(ELF(mutant))")
        if err:
            return err
        if b != mutated:
            r = nobits_padding(b, mutated)
            if r:
                return r
            d = binlab._first_diff(b, mutated)
            return ("roundtrip:byte-mutant:%s" % cls, "bytes(ELF(m)) differs from m at offset %#x" % d)
        df = diff_snap(snapshot(e), raw_snapshot(raw))
        if df:
            return ("byte-mutant:structures:%s" % df[0], "section-content bytes changed, parsed structures differ from the "
                    "original file: %s" % df[1])
        return None

    if mode == "table":
        fields = table_fields(raw)
        mutated = bytearray(data)
        for sel, off, length, seed in edits:
            if not fields:
                break
            fo, w = fields[sel % len(fields)]
            val = binlab.blob(("t", seed), w, nonzero=False)
            if length % 3 == 0:
                val = b"\xff" * w
            elif length % 3 == 1:
                val = bytes(w - 1) + b"\x01" if raw["sex"] == 2 else b"\x01" + bytes(w - 1)
            mutated[fo:fo + w] = val
        mutated = bytes(mutated)
        try:
            raw2 = binlab.parse_elf_raw(mutated)
        except binlab.RawParseError:
            return None
        e, err = parse(mutated, "ELF(table-mutant)")
        if err:
            return err
        b, err = build(e, "bytes(ELF(table-mutant))")
        if err:
            return err
        if b != mutated:
            r = nobits_padding(b, mutated)
            if r:
                return r
            d = binlab._first_diff(b, mutated)
            return ("roundtrip:table-mutant:%s" % cls, "bytes(ELF(m)) differs from m at offset %#x" % d)
        df = diff_snap(snapshot(e), raw_snapshot(raw2))
        if df:
            return ("table-mutant:parse:%s:%s" % (df[0], cls), "miasm vs independent reader: %s" % df[1])
        return None

    assert mode == "api"
    e, err = parse(data, "ELF(data)")
    if err:
        return err
    expected = bytearray(data)
    new_contents = {}
    applied = 0
    runs = binlab.elf_virt_runs(raw, opaque)
    notes = binlab.elf_note_ranges(raw, data)
    donor = [None]
    what = "?"
    idx = 0

    last_kind = {}
    KINDS = ["content-slice", "content", "virt", "virt-span", "content-object", "note-descriptor"]

    touched = []

    def splice(lo, size, idx, o, new):
        expected[lo + o:lo + o + len(new)] = new
        new_contents[idx] = bytes(expected[lo:lo + size])
        last_kind[idx] = KINDS[how]
        touched.append(idx)

    def tname(k):
        return binlab.SHT_NAMES.get(raw["shdrs"][k]["type"], "type-%d" % raw["shdrs"][k]["type"])

    for edit in edits:
        if not opaque:
            break
        # [sel, off, length, seed] (edit kind = seed % 3) or [sel, off, length, seed, kind]
        sel, off, length, seed = edit[:4]
        how = edit[4] % 6 if len(edit) > 4 else seed % 3
        lo, size, idx = opaque[sel % len(opaque)]
        sec = e.sh[idx]
        if (how == 3 and not runs) or (how == 5 and not notes):
            how = 0
        try:
            if how == 0:
                length = 1 + length % min(size, 48)
                o = off % (size - length + 1)
                new = binlab.blob(("a", seed), length, nonzero=False)
                what = "section.content[a:b] = data"
                sec.content[o:o + length] = new
                splice(lo, size, idx, o, new)
            elif how == 1:
                new = binlab.blob(("a", seed), size, nonzero=False)
                what = "section.content = data"
                sec.content = new
                splice(lo, size, idx, 0, new)
            elif how == 2:
                # virtual view: only for allocated PROGBITS sections of files with an address space
                sh = raw["shdrs"][idx]
                length = 1 + length % min(size, 48)
                o = off % (size - length + 1)
                new = binlab.blob(("a", seed), length, nonzero=False)
                what = "virt.set(addr, data)"
                if sh["type"] != 1 or not (sh["flags"] & 2) or sh["addr"] == 0 or raw["ehdr"]["type"] == 1:
                    what = "section.content[a:b] = data"
                    sec.content[o:o + length] = new
                else:
                    # the address must resolve to this section (first match in section order)
                    first = None
                    for j, t in enumerate(raw["shdrs"]):
                        if t["addr"] <= sh["addr"] + o < t["addr"] + t["size"]:
                            first = j
                            break
                    if first != idx:
                        what = "section.content[a:b] = data"
                        sec.content[o:o + length] = new
                    else:
                        e.virt.set(sh["addr"] + o, new)
                splice(lo, size, idx, o, new)
            elif how == 3:
                # one write through the virtual view over sections i..j of a run of address-contiguous PROGBITS
                # sections: from byte a of section i to byte b (excluded) of section j
                long_runs = [r_ for r_ in runs if len(r_) >= 3]
                pool_ = long_runs if long_runs and sel % 4 else runs
                run = pool_[(sel // 4) % len(pool_)]
                n = len(run)
                i = off % (2 * n)
                if i >= n:
                    i = 0
                j = i + max(length % (n - i), (length // 16) % (n - i))
                a = (off // 8) % run[i][1]
                b = 1 + (seed // 8) % run[j][1]
                if i == j and b <= a:
                    a, b = b - 1, a + 1
                idx = run[i][2]
                addr = run[i][3] + a
                total = (run[j][3] + b) - addr
                new = binlab.blob(("v", seed), total, nonzero=False)
                form = seed % 3
                what = "%s over %d consecutive sections" % (("virt.set(addr, data)", "virt[addr] = data",
                                                             "virt[addr:addr+len] = data")[form], j - i + 1)
                if form == 0:
                    e.virt.set(addr, new)
                elif form == 1:
                    e.virt[addr] = new
                else:
                    e.virt[addr:addr + total] = new
                pos = 0
                for k in range(i, j + 1):
                    klo, ksize, kidx, kaddr = run[k]
                    start = a if k == i else 0
                    stop = b if k == j else ksize
                    splice(klo, ksize, kidx, start, new[pos:pos + stop - start])
                    pos += stop - start
                if stats is not None:
                    stats["edit:virt-span:%s-sections" % (j - i + 1 if j - i < 3 else "4+")] += 1
            elif how == 5:
                # bytes of the first descriptor of a note section (e.g. the build id): the record headers and names
                # stay as they are, the section keeps its size
                lo, size, idx, doff, dlen = notes[sel % len(notes)]
                sec = e.sh[idx]
                length = 1 + length % min(dlen, 48)
                o = doff + off % (dlen - length + 1)
                new = binlab.blob(("n", seed), length, nonzero=False)
                if seed & 1:
                    what = "note_section.content = data (same size, descriptor bytes changed)"
                    cur = bytearray(expected[lo:lo + size])
                    cur[o:o + length] = new
                    sec.content = bytes(cur)
                else:
                    what = "note_section.content[a:b] = data (inside the descriptor)"
                    sec.content[o:o + length] = new
                splice(lo, size, idx, o, new)
                if stats is not None:
                    stats["edit:note-descriptor"] += 1
            else:
                # the content object of a section of the same size is assigned to this section (from the same
                # file when there is one, else from a second parse of the original file), then one of the two
                # sections is patched in place: the other one keeps its bytes
                same = [c for c in opaque if c[1] == size and c[2] != idx]
                if same:
                    slo, ssize, sidx = same[off % len(same)]
                    src = e.sh[sidx]
                    what = "section.content = content object of same-size section %d" % sidx
                else:
                    if donor[0] is None:
                        donor[0] = elf_init.ELF(data)
                        donor.append(bytearray(data))        # the donor's own contents (it is patched too)
                    slo, sidx = None, idx
                    src = donor[0].sh[idx]
                    what = "section.content = content object of the same section of another ELF(data)"
                value = bytes(expected[slo:slo + size]) if same else bytes(donor[1][lo:lo + size])
                sec.content = src.content
                splice(lo, size, idx, 0, value)
                length = 1 + length % min(size, 48)
                o = (off // 8) % (size - length + 1)
                new = binlab.blob(("t", seed), length, nonzero=False)
                if seed & 1:
                    what += ", then source.content[a:b] = data"
                    src.content[o:o + length] = new
                    if same:
                        splice(slo, size, sidx, o, new)
                    else:
                        donor[1][lo + o:lo + o + length] = new
                else:
                    what += ", then section.content[a:b] = data"
                    sec.content[o:o + length] = new
                    splice(lo, size, idx, o, new)
                    if same:
                        new_contents[sidx] = bytes(expected[slo:slo + size])
                        last_kind[sidx] = KINDS[how]
                if stats is not None:
                    stats["edit:transplant:%s" % ("same-file" if same else "second-parse")] += 1
        except Exception as ex:
            return ("exception:edit:%s@%s" % (type(ex).__name__, _where(ex)),
                    "%s on section %d (%r) raised %r" % (what, idx, raw["shdrs"][idx]["name_s"], ex))
        applied += 1
        # a same-size edit leaves the section's declared size alone
        for k in touched:
            if e.sh[k].sh.size != raw["shdrs"][k]["size"]:
                return ("edit:sh_size-changed:after-%s:%s" % (last_kind[k], tname(k)),
                        "%s on section %d (%r, %d bytes; len(section.content) is now %d): sh.size is now %d"
                        % (what, k, raw["shdrs"][k]["name_s"], raw["shdrs"][k]["size"], len(bytes(e.sh[k].content)), e.sh[k].sh.size))
        del touched[:]
    expected = bytes(expected)
    b, err = build(e, "bytes(edited ELF)")
    if err:
        return err
    if b != expected:
        r = nobits_padding(b, expected)
        if r:
            return r
        d = binlab._first_diff(b, expected)
        inside = [i for (lo, size, i) in opaque if lo <= d < lo + size] + [n_[2] for n_ in notes if n_[0] <= d < n_[0] + n_[1]]
        eh = raw["ehdr"]
        if eh["shoff"] and eh["shoff"] <= d < eh["shoff"] + eh["shnum"] * eh["shentsize"]:
            k = (d - eh["shoff"]) // eh["shentsize"]
            if k in new_contents:
                return ("edit:serialised:header-of-edited-section:after-" + last_kind[k],
                        "after %d same-size edits, the section header of section %d (%r, type %d) in bytes(elf) differs from the "
                        "original one at file offset %#x (+%#x in the entry)"
                        % (applied, k, raw["shdrs"][k]["name_s"], raw["shdrs"][k]["type"], d, (d - eh["shoff"]) % eh["shentsize"]))
        return ("edit:serialised:%s" % ("in-edited-section:after-" + last_kind[inside[0]]
                                        if inside and inside[0] in new_contents else "elsewhere"),
                "after %d same-size edits, bytes(elf) differs from the spliced original at offset %#x (lengths %d / %d)"
                % (applied, d, len(b), len(expected)))
    e2, err = parse(b, "ELF(bytes(edited ELF))")
    if err:
        return err
    df = diff_snap(snapshot(e2), raw_snapshot(raw))
    if df:
        return ("edit:structures:%s" % df[0], "re-parsed structures differ from the original file: %s" % df[1])
    longer = None
    for idx, c in new_contents.items():
        got = bytes(e2.sh[idx].content)
        if got != c:
            if len(got) > len(c) and got[:len(c)] == c:
                # reported last: a wrong byte in another section is a different matter
                longer = longer or ("edit:contents:longer-than-sh_size:after-%s:%s" % (last_kind[idx], tname(idx)),
                                    "section %d (%r): the re-parsed section's content is its %d bytes followed by %d more bytes %r"
                                    % (idx, raw["shdrs"][idx]["name_s"], len(c), len(got) - len(c), got[len(c):][:16]))
                continue
            return ("edit:contents:after-" + last_kind[idx], "section %d content after re-parse differs at +%#x" % (idx, binlab._first_diff(got, c)))
    return longer


def is_nontrivial(raw):
    has_sym = any(len(v) > 1 for v in raw["symtabs"].values())
    has_rel = any(len(v) > 0 for v in raw["reltabs"].values())
    return has_sym and has_rel


class C43(Check):
    pid = "C43"
    rule = ("corpus compiled per shard from generated C (31 recipes: gcc -c at 3 -O levels/-g/-ffunction-sections, -m32 -c, "
            "-nostdlib -static 64/32/PIE, -shared x4, clang -c for 7 big-endian + 5 little-endian triples, 5 recipes with "
            "byte arrays in 3..10 custom 1-aligned sections = runs of address-contiguous PROGBITS sections) plus the four linked "
            "ELF samples of example/samples (ARM, AArch64, big-endian PowerPC, x86-64 PIE); per file: pristine "
            "round trip + parse vs independent reader, then Hypothesis cases of 1..5 same-size API edits (content slice, whole content, "
            "virt write inside a section, virt write spanning consecutive sections, content object of a same-size section "
            "assigned then one of the two patched in place, descriptor bytes of a note section), byte mutants of opaque "
            "section contents and value-field mutants of symbol/relocation/dynamic tables. Non-trivial: file has a symbol "
            "table and relocation entries; distinct by (file hash, mode, edits).")
    assumptions = [
        "the independent reader (vlib.binlab.parse_elf_raw) follows the ELF gABI layouts for Ehdr/Shdr/Phdr/Sym/Rel/Rela/Dyn",
        "edited / mutated bytes belong to sections whose type the loader does not interpret (not SYMTAB/DYNSYM/STRTAB/"
        "REL/RELA/DYNAMIC/NOTE/NOBITS) and that overlap no header table, or to the descriptor of the first record of a NOTE "
        "section (record headers and names untouched); table-field mutants touch only st_value, st_size, "
        "r_offset, r_addend, d_val",
        "big-endian inputs are relocatable objects (no foreign linker in the sandbox) and the repository's md5_ppc32b executable",
    ]
    level_text = "generated-input search over toolchain output and mutants; no violation found is not a proof"
    technique = "round-trip differential against the raw file + independent ELF reader"

    def nshards(self, tier):
        return 16

    def run_shard(self, tier, seed, shard, nshards):
        from hypothesis import strategies as st
        res = ShardResult()
        nrec = len(binlab.elf_recipes(extra=True))
        per = 24 if tier == "thorough" else 6
        picks = [(shard * per + j + derive_seed(seed, "rot") % nrec) % nrec for j in range(per)]
        ncases = 260 if tier == "thorough" else 40
        edit = st.tuples(st.integers(0, 63), st.integers(0, 0xFFFF), st.integers(0, 255), st.integers(0, 0xFFFF))
        # api edits: kind implied by the seed (content slice / whole content / virt write inside one section) or explicit
        # (3: virt write over consecutive sections, 4: content object of another section, then in-place patch,
        # 5: descriptor bytes of a note section)
        api_edit = st.one_of(edit, st.tuples(st.integers(0, 63), st.integers(0, 0xFFFF), st.integers(0, 255),
                                             st.integers(0, 0xFFFF), st.sampled_from([3, 3, 4, 4, 5, 0, 1, 2])))
        case = st.sampled_from(["api", "api", "api", "bytes", "bytes", "table"]).flatmap(
            lambda m: st.tuples(st.just(m), st.lists(api_edit if m == "api" else edit, min_size=1, max_size=5)))
        with binlab.Scratch("c43") as scratch:
            corpus = binlab.build_elf_corpus(scratch, "%d-%d" % (seed, shard), picks, res, extra=True)
        extra = binlab.repo_elf_sample(shard)
        if extra is not None:
            corpus.append(extra)
        for n, (label, kind, data, src) in enumerate(corpus):
            raw = binlab.parse_elf_raw(data)
            nt = is_nontrivial(raw)
            fid = hashlib.blake2b(data, digest_size=8).hexdigest()
            packed = pack_file(data)
            res.counters["file:" + label] += 1
            res.counters["class:%d-bit-%s-%s" % (raw["size"], "le" if raw["sex"] == 1 else "be", kind)] += 1
            res.counters["opaque_ranges"] += len(binlab.elf_opaque_ranges(raw))
            res.counters["runs-of-3+-contiguous-progbits"] += sum(1 for r_ in binlab.elf_virt_runs(raw) if len(r_) >= 3)
            r = judge(data, "pristine", [])
            res.case(nontrivial_key=(fid, "pristine") if nt else None,
                     sample={"label": label, "mode": "pristine", "size": len(data)} if n == 0 else None)
            if r is not None:
                res.fail(r[0], "%s: %s" % (label, r[1]), {"label": label, "elf_z": packed, "mode": "pristine", "edits": []})

            def one(c, data=data, label=label, nt=nt, fid=fid, packed=packed):
                mode, edits = c
                edits = [list(x) for x in edits]
                r = judge(data, mode, edits, res.counters)
                res.case(nontrivial_key=(fid, mode, edits) if nt else None)
                res.counters["mode:" + mode] += 1
                if r is not None:
                    res.fail(r[0], "%s: %s" % (label, r[1]), {"label": label, "elf_z": packed, "mode": mode, "edits": edits})
            hyp.survey(case, ncases, derive_seed(seed, shard, n), one)
        if corpus:
            res.samples.append({"label": corpus[0][0], "source": corpus[0][3][:400]})
        return res

    def replay(self, case):
        data = unpack_file(case["elf_z"])
        r = judge(data, case["mode"], case["edits"])
        if r is None:
            return None
        return Failure(r[0], "%s: %s" % (case.get("label"), r[1]), case)

    def shrink(self, failure, tier):
        case = dict(failure.case)
        data = unpack_file(case["elf_z"])
        edits = list(case["edits"])

        def still(cand):
            r = judge(data, case["mode"], cand)
            return r is not None and r[0] == failure.bucket
        if len(edits) > 1:
            edits = hyp.ddmin_list(edits, still, budget=60)
        case["edits"] = edits
        r = judge(data, case["mode"], edits)
        if r is None or r[0] != failure.bucket:
            return failure
        return Failure(r[0], "%s: %s" % (case.get("label"), r[1]), case)


CHECK = C43()
