"""C24 — the virtual memory manager behaves like a byte map with permissions.

Model-based histories: a real miasm.jitter.VmMngr.Vm stepped next to a plain-Python model
(pages = base/size/access/bytearray, breakpoint list, exception flags, accessed-byte sets).
Emulated typed accesses are the exported vm_MEM_LOOKUP_NN / vm_MEM_WRITE_NN symbols of the
VmMngr extension module, called through ctypes with the pointer published by Vm().vmmngr,
followed (as the jitters do after every instruction) by check_memory_breakpoint().

What the oracle demands is what the property states and nothing more:
  * a mapping overlapping a mapped byte is refused and changes nothing; a non-overlapping
    non-empty mapping is accepted (zero-sized mappings may be accepted or refused);
  * host and emulated reads return the bytes last written, typed values in the configured order;
  * host access (get/set_mem, get/set_uN, set_mem_access) touching an unmapped byte raises
    (the property does not make a failing host write atomic: bytes of the mapped part may hold
    the old or the new value; permissions are not demanded of host accesses);
  * an emulated access sets EXCEPT_ACCESS_VIOL iff a touched byte is unmapped / its page lacks
    PAGE_READ (read) or PAGE_WRITE (write); a faulting access leaves every byte unchanged;
  * after check_memory_breakpoint() EXCEPT_BREAKPOINT_MEMORY is set iff a breakpoint of the
    matching kind overlaps the bytes accessed since the last reset_memory_access() -- *must* for
    bytes of successful emulated accesses, *may* for bytes of faulting emulated accesses and of
    host accesses (the statement does not say whether those count), *must not* otherwise;
  * get_memory_read/write, as byte sets, contain the bytes of successful emulated accesses since
    the last reset and nothing outside (successful + faulting emulated + host accesses).

Every batch of histories runs in a forked child (vlib.isolate): exit()/abort()/SIGSEGV inside
the C code becomes the failure `process-died` attributed to the history being executed.
"""
import itertools

from vlib.runner import Check, ShardResult, Failure, derive_seed
from vlib import hyp
from vlib.hyp import CheckFailure
from vlib.isolate import run_isolated

A_MAX = 0x4000
VIOL = (1 << 14) | (1 << 25)
BPF = 1 << 10
PAGE_READ, PAGE_WRITE = 1, 2
SIZES = [0, 1, 2, 3, 5, 8, 16, 17, 32, 64, 100, 256]
EXC_VALUES = [0, 0, 0, VIOL, BPF, 1 << 1, BPF | VIOL, 1 << 11]
MAX_PAGES = 8
MAX_SOFT_FAILURES = 4

_LIB = {}


def vmlib():
    """ctypes view of the VmMngr extension module (the object the jitters link against)."""
    if "lib" not in _LIB:
        import ctypes
        from miasm.jitter import VmMngr
        lib = ctypes.CDLL(VmMngr.__file__)
        rd, wr = {}, {}
        for n, ct in ((1, ctypes.c_uint8), (2, ctypes.c_uint16), (4, ctypes.c_uint32), (8, ctypes.c_uint64)):
            f = getattr(lib, "vm_MEM_LOOKUP_%02d" % (8 * n))
            f.argtypes = [ctypes.c_void_p, ctypes.c_uint64]
            f.restype = ct
            rd[n] = f
            g = getattr(lib, "vm_MEM_WRITE_%02d" % (8 * n))
            g.argtypes = [ctypes.c_void_p, ctypes.c_uint64, ct]
            g.restype = None
            wr[n] = g
        _LIB["lib"] = (VmMngr, rd, wr)
    return _LIB["lib"]


class Page(object):
    __slots__ = ("base", "size", "access", "data")

    def __init__(self, base, size, access, data):
        self.base, self.size, self.access, self.data = base, size, access, bytearray(data)


def pattern(fill, n):
    return bytes(((fill + 7 * k) ^ (k >> 3)) & 0xFF for k in range(n))


def ranges_to_set(lst):
    s = set()
    for a, b in lst:
        s.update(range(a, b))
    return s


class Sim(object):
    """Real Vm + model.  step(op) never raises for a breach: breaches are appended to
    self.failures as (bucket, detail, step_index); the history stops after a breach that the
    model cannot be re-aligned after (self.dead)."""

    def __init__(self):
        VmMngr, self.rd, self.wr = vmlib()
        vm = VmMngr.Vm()
        vm.init_memory_page_pool()
        vm.init_code_bloc_pool()
        vm.init_memory_breakpoint()
        vm.set_little_endian()
        self.vm = vm
        self.ptr = vm.vmmngr
        self.pages = []          # Page, in mapping order (zero-sized included)
        self.endian = "little"
        self.flags = 0
        self.bps = []            # (ad, size, access)
        self.rd_lo, self.rd_hi, self.wr_lo, self.wr_hi = set(), set(), set(), set()
        self.failures = []
        self.dead = False
        self.nstep = 0
        self.stats = {}
        self.nt = False
        vm.set_exception(0)

    # ------------------------------------------------------------------ helpers
    def stat(self, k):
        self.stats[k] = self.stats.get(k, 0) + 1

    def live(self):
        return [p for p in self.pages if p.size]

    def page_at(self, a):
        for p in self.pages:
            if p.base <= a < p.base + p.size:
                return p
        return None

    def zshadow(self, a, n):
        """state predicate: the range touches a page whose base is also the base of a zero-sized page"""
        zb = set(p.base for p in self.pages if p.size == 0)
        if not zb:
            return ""
        for p in self.pages:
            if p.size and p.base in zb and p.base < a + max(n, 1) and a < p.base + p.size:
                return ":zero-sized-page-at-page-base"
        return ""

    def addr(self, spec, size=1):
        kind, i, off = spec
        if not self.pages or kind == 0:
            a = i + off
        else:
            p = self.pages[i % len(self.pages)]
            if kind == 1:
                a = p.base + off
            elif kind == 2:
                a = p.base + p.size + off
            elif kind == 3:
                a = p.base + ((abs(off) * 13 + i // 7) % p.size if p.size else 0)
            else:           # 4: ends where the page starts (adjacent before)
                a = p.base - size + off
        return max(0, min(a, A_MAX - max(size, 1)))

    def fail(self, bucket, detail, recover=False):
        raise CheckFailure(bucket, detail) if not recover else _Soft(bucket, detail)

    def model_bytes(self, a, n):
        """bytes of [a, a+n) or None if any is unmapped"""
        out = bytearray()
        for x in range(a, a + n):
            p = self.page_at(x)
            if p is None:
                return None
            out.append(p.data[x - p.base])
        return bytes(out)

    def model_write(self, a, data):
        for k, b in enumerate(data):
            p = self.page_at(a + k)
            if p is not None:
                p.data[a + k - p.base] = b

    def real_memory(self):
        return self.vm.get_all_memory()

    def diff_state(self):
        """-> None | (kind, detail): every mapped byte, size and access right of the real Vm equals the model"""
        real = self.real_memory()
        zb = set(p.base for p in self.pages if p.size == 0)
        for p in self.pages:
            if not p.size:
                continue
            ent = real.get(p.base)
            if p.base in zb and ent is not None and ent["size"] == 0:
                continue            # get_all_memory is keyed by base: the zero-sized page hides this one
            if ent is None or ent["size"] != p.size:
                return ("page-missing", "page 0x%x+0x%x absent from get_all_memory() %r" % (p.base, p.size, sorted(real)))
            if ent["access"] != p.access:
                return ("access-diff", "page 0x%x access %r, model %r" % (p.base, ent["access"], p.access))
            if ent["data"] != bytes(p.data):
                d = [k for k in range(p.size) if ent["data"][k] != p.data[k]]
                return ("memory-diff", "bytes at %s differ: real %s model %s"
                        % (["0x%x" % (p.base + k) for k in d[:8]],
                           bytes(ent["data"][k] for k in d[:8]).hex(), bytes(p.data[k] for k in d[:8]).hex()))
        for base, ent in real.items():
            if ent["size"] and not any(p.base == base and p.size == ent["size"] for p in self.pages):
                return ("extra-page", "real page 0x%x+0x%x unknown to the model" % (base, ent["size"]))
        return None

    def check_state(self, op, a=0, n=0):
        d = self.diff_state()
        if d is not None:
            self.fail("%s:state:%s%s" % (op, d[0], self.zshadow(a, n)), d[1])

    def adopt_memory(self):
        real = self.real_memory()
        for p in self.pages:
            ent = real.get(p.base)
            if p.size and ent is not None and ent["size"] == p.size:
                p.data = bytearray(ent["data"])

    def sync_flags(self, op, may=0, zs=""):
        """real flags must contain self.flags and nothing outside self.flags|may; model adopts them"""
        real = self.vm.get_exception()
        miss = self.flags & ~real
        extra = real & ~(self.flags | may)
        if miss:
            self.fail("%s:flags:missing=0x%x%s" % (op, miss, zs), "exception flags 0x%x, expected 0x%x (may 0x%x)"
                      % (real, self.flags, may))
        if extra:
            self.fail("%s:flags:unexpected=0x%x%s" % (op, extra, zs), "exception flags 0x%x, expected 0x%x (may 0x%x)"
                      % (real, self.flags, may))
        self.flags = real

    def bp_eval(self):
        """-> (must, may) for EXCEPT_BREAKPOINT_MEMORY after check_memory_breakpoint()"""
        must = may = False
        for ad, size, acc in self.bps:
            r = range(ad, ad + size)
            if acc & 1:
                must = must or any(x in self.rd_lo for x in r)
                may = may or any(x in self.rd_hi for x in r)
            if acc & 2:
                must = must or any(x in self.wr_lo for x in r)
                may = may or any(x in self.wr_hi for x in r)
        return must, may

    def do_check_bp(self, op):
        must, may = self.bp_eval()
        self.vm.check_memory_breakpoint()
        if must:
            self.flags |= BPF
        self.stat("bpcheck:%s" % ("must" if must else "may" if may else "none"))
        self.sync_flags(op + ":check_memory_breakpoint", BPF if may else 0)

    def check_access_log(self, op):
        rr = ranges_to_set(self.vm.get_memory_read())
        ww = ranges_to_set(self.vm.get_memory_write())
        for name, real, lo, hi in (("read", rr, self.rd_lo, self.rd_hi), ("write", ww, self.wr_lo, self.wr_hi)):
            if not lo <= real:
                self.fail("%s:access-log:%s-missing" % (op, name), "get_memory_%s() lacks %s"
                          % (name, ["0x%x" % x for x in sorted(lo - real)[:8]]))
            if not real <= hi:
                self.fail("%s:access-log:%s-extra" % (op, name), "get_memory_%s() has never-accessed %s"
                          % (name, ["0x%x" % x for x in sorted(real - hi)[:8]]))

    # ------------------------------------------------------------------ ops
    def step(self, op):
        if self.dead:
            return
        name = op[0]
        try:
            try:
                getattr(self, "op_" + name)(*op[1:])
                self.check_access_log(name)
                self.sync_flags(name)
                self.check_state(name)
            except _Soft as s:
                self.failures.append((s.bucket, s.detail, self.nstep))
                self.adopt_memory()
                self.flags = self.vm.get_exception()
                if len(self.failures) >= MAX_SOFT_FAILURES:
                    self.dead = True
        except CheckFailure as f:
            self.failures.append((f.bucket, f.detail, self.nstep))
            self.dead = True
        self.nstep += 1

    def op_map(self, spec, sidx, access, fill):
        size = SIZES[sidx % len(SIZES)]
        a = self.addr(spec, size)
        data = pattern(fill, size)
        overl = [p for p in self.live() if p.base < a + size and a < p.base + p.size] if size else []
        if not overl and size and len(self.live()) >= MAX_PAGES:
            self.stat("map:skipped-page-cap")
            return
        try:
            self.vm.add_memory_page(a, access, data, "p%x" % a)
            ok = True
        except Exception as e:
            ok = False
            err = e
        if size == 0:
            self.stat("map:zero-sized:%s" % ("accepted" if ok else "refused"))
            if ok:
                self.pages.append(Page(a, 0, access, b""))
                self.nt = True
            return
        if overl:
            self.stat("map:overlap")
            self.nt = True
            if ok:
                self.fail("map:overlap-accepted", "add_memory_page(0x%x, %d, <%d bytes>) accepted though page 0x%x+0x%x "
                          "is mapped" % (a, access, size, overl[0].base, overl[0].size))
            return
        if not ok:
            if any(p.size == 0 and a < p.base < a + size for p in self.pages):
                self.stat("map:refused-around-zero-sized")
                return
            self.fail("map:refused-nonoverlapping", "add_memory_page(0x%x, %d, <%d bytes>) raised %r; mapped: %s"
                      % (a, access, size, err, [(hex(p.base), p.size) for p in self.pages]))
        if any(p.base + p.size == a or a + size == p.base for p in self.live()):
            self.stat("map:adjacent")
        self.stat("map:ok")
        self.pages.append(Page(a, size, access, data))

    def op_unmap(self, i, mode):
        lv = self.live()
        if mode == 0 and lv:
            p = lv[i % len(lv)]
            zs = self.zshadow(p.base, p.size)
            self.vm.remove_memory_page(p.base)
            self.pages.remove(p)
            self.stat("unmap:page")
            d = self.diff_state()
            if d is not None:
                self.fail("unmap:state:%s%s" % (d[0], zs), "after remove_memory_page(0x%x): %s" % (p.base, d[1]))
            if self.vm.is_mapped(p.base, 1) or self.vm.is_mapped(p.base + p.size - 1, 1):
                self.fail("unmap:still-mapped" + zs, "page 0x%x still mapped" % p.base)
        else:
            a = self.addr((0, i, 0))
            for _ in range(64):
                if self.page_at(a) is None:
                    break
                a = (a + 0x101) % A_MAX
            else:
                return
            try:
                self.vm.remove_memory_page(a)
            except Exception:
                pass
            self.stat("unmap:unmapped-address")

    def op_prot(self, spec, access):
        a = self.addr(spec)
        p = self.page_at(a)
        zs = self.zshadow(a, 1)
        try:
            self.vm.set_mem_access(a, access)
            ok = True
        except Exception:
            ok = False
        if p is None:
            if ok:
                self.fail("set_mem_access:unmapped-accepted" + zs, "set_mem_access(0x%x) on an unmapped address" % a)
            self.sync_flags("set_mem_access", VIOL)
            self.stat("prot:unmapped")
            return
        if not ok:
            self.fail("set_mem_access:mapped-raises" + zs, "set_mem_access(0x%x, %d) raised" % (a, access))
        p.access = access
        got = self.vm.get_mem_access(a)
        if got != access:
            self.fail("get_mem_access:value" + zs, "get_mem_access(0x%x) = %r after set to %r" % (a, got, access))
        self.stat("prot:ok")

    def host_write(self, opname, a, data, call):
        n = len(data)
        zs = self.zshadow(a, n)
        old = [self.page_at(a + k) for k in range(n)]
        allmapped = all(p is not None for p in old)
        allperm = allmapped and all(p.access & PAGE_WRITE for p in old)
        self.wr_hi.update(range(a, a + n))
        if n == 0:
            self.wr_hi.add(a)       # an empty write "at a": tolerated if the manager counts it as touching a
        try:
            call()
            ok = True
        except Exception as e:
            ok = False
            err = e
        if ok:
            if not allmapped:
                if n == 0:
                    return
                self.fail("%s:unmapped-accepted%s" % (opname, zs), "%s(0x%x, <%d bytes>) succeeded though 0x%x is unmapped"
                          % (opname, a, n, [a + k for k in range(n) if old[k] is None][0]))
            self.model_write(a, data)
            self.stat("host-write:ok")
            self.check_state(opname, a, n)
            return
        # failed
        self.stat("host-write:raised")
        if allperm and n:
            self.fail("%s:mapped-raises%s" % (opname, zs), "%s(0x%x, <%d bytes>) raised %r on mapped writable memory"
                      % (opname, a, n, err))
        # bytes of the mapped part may hold old or new values (not stated to be atomic)
        real = self.real_memory()
        for k in range(n):
            p = old[k]
            if p is None:
                continue
            ent = real.get(p.base)
            if ent is None or ent["size"] != p.size:
                continue
            rb = ent["data"][a + k - p.base]
            if rb != p.data[a + k - p.base] and rb != data[k]:
                self.fail("%s:failed-write-garbage%s" % (opname, zs), "byte 0x%x = %02x is neither old nor new" % (a + k, rb))
            p.data[a + k - p.base] = rb
        self.sync_flags(opname, VIOL)

    def op_hwrite(self, spec, n, fill):
        a = self.addr(spec, n)
        data = pattern(fill, n)
        self.host_write("set_mem", a, data, lambda: self.vm.set_mem(a, data))

    def op_hset(self, spec, k, val):
        n = 1 << (k & 3)
        a = self.addr(spec, n)
        val &= (1 << (8 * n)) - 1
        data = val.to_bytes(n, self.endian)
        f = getattr(self.vm, "set_u%d" % (8 * n))
        self.host_write("set_u%d" % (8 * n), a, data, lambda: f(a, val))

    def host_read(self, opname, a, n, call, conv):
        zs = self.zshadow(a, n)
        exp = self.model_bytes(a, n)
        self.rd_hi.update(range(a, a + n))
        if n == 0:
            self.rd_hi.add(a)
        try:
            got = call()
            ok = True
        except Exception as e:
            ok = False
            err = e
        if exp is None:
            if ok and n:
                self.fail("%s:unmapped-accepted%s" % (opname, zs), "%s(0x%x) over %d bytes returned %r though a byte is "
                          "unmapped" % (opname, a, n, got))
            self.stat("host-read:unmapped")
            self.sync_flags(opname, VIOL)
            return
        if not ok:
            if n == 0:
                return
            if all(self.page_at(a + k).access & PAGE_READ for k in range(n)):
                self.fail("%s:mapped-raises%s" % (opname, zs), "%s(0x%x) over %d mapped bytes raised %r" % (opname, a, n, err))
            self.sync_flags(opname, VIOL)
            return
        if got != conv(exp):
            self.fail("%s:value%s" % (opname, zs), "%s(0x%x) [%d bytes, %s endian] = %r, last written %r"
                      % (opname, a, n, self.endian, got, conv(exp)))
        self.stat("host-read:ok")

    def op_hread(self, spec, n):
        a = self.addr(spec, n)
        self.host_read("get_mem", a, n, lambda: self.vm.get_mem(a, n), lambda b: b)

    def op_hget(self, spec, k):
        n = 1 << (k & 3)
        a = self.addr(spec, n)
        f = getattr(self.vm, "get_u%d" % (8 * n))
        self.host_read("get_u%d" % (8 * n), a, n, lambda: f(a), lambda b: int.from_bytes(b, self.endian))

    def op_mapped(self, spec, n):
        a = self.addr(spec, n)
        got = self.vm.is_mapped(a, n)
        exp = self.model_bytes(a, n) is not None
        if n and bool(got) != exp:
            self.fail("is_mapped:value" + self.zshadow(a, n), "is_mapped(0x%x, %d) = %r, model %r" % (a, n, got, exp))
        self.stat("is_mapped:%s" % exp)

    def classify(self, a, n, need):
        sts = []
        for x in range(a, a + n):
            p = self.page_at(x)
            sts.append((p, "unmapped" if p is None else "ok" if p.access & need else "noperm"))
        first_p, first = sts[0]
        rank = {"ok": 0, "noperm": 1, "unmapped": 2}
        later = None
        for p, s in sts[1:]:
            if p is not first_p:
                if later is None or rank[s] > rank[later]:
                    later = s
        pages = []
        for p, s in sts:
            if not pages or pages[-1] is not p:
                pages.append(p)
        cls = "first=%s,later=%s" % (first, later if later is not None else "same-page")
        fault = any(s != "ok" for _, s in sts)
        return cls, fault, len(pages)

    def emu(self, rw, a, n, val):
        need = PAGE_WRITE if rw else PAGE_READ
        kind = "emu-write" if rw else "emu-read"
        cls, fault, npages = self.classify(a, n, need)
        zs = self.zshadow(a, n)
        cls += zs
        if npages > 1:
            self.nt = True
        self.stat("%s:%s:%s" % (kind, cls, "fault" if fault else "ok"))
        if self.flags & VIOL:
            self.flags &= ~VIOL
            self.vm.set_exception(self.flags)
        touched = range(a, a + n)
        exp_val = None
        if rw:
            self.wr_hi.update(touched)
            if not fault:
                self.wr_lo.update(touched)
                data = (val & ((1 << (8 * n)) - 1)).to_bytes(n, self.endian)
                self.model_write(a, data)
            self.wr[n](self.ptr, a, val & ((1 << (8 * n)) - 1))
            got = None
        else:
            self.rd_hi.update(touched)
            if not fault:
                self.rd_lo.update(touched)
                exp_val = int.from_bytes(self.model_bytes(a, n), self.endian)
            got = self.rd[n](self.ptr, a)
        real = self.vm.get_exception()
        _, may = self.bp_eval()
        recover = not zs
        what = "%s of %d bytes at 0x%x (%s endian)%s; pages %s" % (
            kind, n, a, self.endian, " value 0x%x" % (val & ((1 << (8 * n)) - 1)) if rw else "",
            [(hex(p.base), hex(p.size), p.access) for p in self.pages if p.base < a + n + 1 and a <= p.base + p.size])
        if fault and (real & VIOL) != VIOL:
            self.fail("%s:missed-fault:%s" % (kind, cls), "%s: no EXCEPT_ACCESS_VIOL (flags 0x%x)" % (what, real), recover)
        if not fault and (real & VIOL):
            self.fail("%s:spurious-fault:%s" % (kind, cls), "%s: flags 0x%x" % (what, real), recover)
        if fault:
            self.flags |= VIOL
        self.sync_flags(kind, BPF if may else 0, zs)
        if exp_val is not None and got != exp_val:
            self.fail("%s:value:%s" % (kind, cls), "%s returned 0x%x, last written 0x%x" % (what, got, exp_val), recover)
        d = self.diff_state()
        if d is not None:
            if d[0] == "memory-diff":
                self.fail("%s:%s:%s" % (kind, "memory-changed-on-fault" if fault else "memory-diff", cls),
                          what + ": " + d[1], recover)
            self.fail("%s:state:%s:%s" % (kind, d[0], cls), what + ": " + d[1])

    def op_insn(self, reset, accesses):
        """one emulated instruction, as the jitters bracket it: accesses, check_memory_breakpoint,
        check_invalid_code_blocs, (reset_memory_access before the next one)"""
        if reset:
            self.op_reset()
        for rw, spec, k, val in accesses:
            n = 1 << (k & 3)
            a = self.addr(spec, n)
            try:
                self.emu(rw, a, n, val)
            except _Soft as s:
                # record, re-align, go on with the instruction
                self.failures.append((s.bucket, s.detail, self.nstep))
                self.adopt_memory()
                self.flags = self.vm.get_exception()
                if len(self.failures) >= MAX_SOFT_FAILURES:
                    self.dead = True
                    return
        self.do_check_bp("insn")
        self.vm.check_invalid_code_blocs()

    def op_reset(self):
        self.vm.reset_memory_access()
        self.rd_lo.clear(), self.rd_hi.clear(), self.wr_lo.clear(), self.wr_hi.clear()

    def op_chk(self):
        self.do_check_bp("chk")

    def op_bpadd(self, spec, size, access):
        a = self.addr(spec, size)
        access = (access % 3) + 1
        if any(b[0] == a and b[2] == access for b in self.bps) or len(self.bps) >= 6:
            self.stat("bpadd:skipped")
            return
        self.bps.append((a, size, access))
        must, may = self.bp_eval()
        self.vm.add_memory_breakpoint(a, size, access)      # runs check_memory_breakpoint itself
        if must:
            self.flags |= BPF
        self.sync_flags("add_memory_breakpoint", BPF if may else 0)
        self.stat("bpadd")

    def op_bpdel(self, j, mode):
        if not self.bps:
            return
        ad, size, acc = self.bps[j % len(self.bps)]
        if mode == 0:
            self.vm.remove_memory_breakpoint(ad, acc)
            self.bps.remove((ad, size, acc))
            self.stat("bpdel:match")
        else:
            other = (acc % 3) + 1
            if any(b[0] == ad and b[2] == other for b in self.bps):
                return
            self.vm.remove_memory_breakpoint(ad, other)
            self.stat("bpdel:other-access")

    def op_bpclear(self):
        self.vm.reset_memory_breakpoint()
        self.bps = []

    def op_endian(self, big):
        if big:
            self.vm.set_big_endian()
            self.endian = "big"
        else:
            self.vm.set_little_endian()
            self.endian = "little"
        if bool(self.vm.is_little_endian()) != (not big):
            self.fail("is_little_endian:value", "after set_%s_endian" % self.endian)

    def op_exc(self, idx):
        v = EXC_VALUES[idx % len(EXC_VALUES)]
        self.vm.set_exception(v)
        self.flags = v
        got = self.vm.get_exception()
        if got != v:
            self.fail("get_exception:value", "get_exception() = 0x%x after set_exception(0x%x)" % (got, v))


class _Soft(Exception):
    """a breach after which the model can be re-aligned with the real Vm (history continues)"""

    def __init__(self, bucket, detail):
        Exception.__init__(self, bucket)
        self.bucket, self.detail = bucket, detail


def run_ops(ops):
    """-> (failures [(bucket, detail, step)], stats, nontrivial)"""
    sim = Sim()
    for op in ops:
        sim.step(op)
        if sim.dead:
            break
    return sim.failures, sim.stats, sim.nt


# ---------------------------------------------------------------------------- generators

def strategies(max_ops):
    from hypothesis import strategies as st
    idx = st.integers(0, 0x3FFF)
    off = st.integers(-9, 9)
    aspec = st.tuples(st.sampled_from([0, 1, 1, 2, 2, 2, 3, 3]), idx, off)
    aspec_map = st.tuples(st.sampled_from([0, 0, 1, 2, 2, 4]), idx, st.sampled_from([0, 0, 0, 0, 1, -1, 2, -2, 5]))
    access = st.sampled_from([3, 3, 3, 1, 2, 0, 7, 5, 6, 4])
    k = st.integers(0, 3)
    val = st.integers(0, (1 << 64) - 1)
    byte = st.integers(0, 255)
    nlen = st.one_of(st.integers(0, 20), st.integers(0, 300))
    op_map = st.tuples(st.just("map"), aspec_map, st.integers(0, len(SIZES) - 1), access, byte)
    emu_access = st.tuples(st.integers(0, 1), aspec, k, val)
    op_insn = st.tuples(st.just("insn"), st.integers(0, 1), st.lists(emu_access, min_size=1, max_size=3))
    ops = st.one_of(
        op_map, op_map,
        op_insn, op_insn, op_insn, op_insn,
        st.tuples(st.just("unmap"), idx, st.sampled_from([0, 0, 0, 1])),
        st.tuples(st.just("prot"), aspec, access),
        st.tuples(st.just("hwrite"), aspec, nlen, byte),
        st.tuples(st.just("hread"), aspec, nlen),
        st.tuples(st.just("hset"), aspec, k, val),
        st.tuples(st.just("hget"), aspec, k),
        st.tuples(st.just("mapped"), aspec, nlen),
        st.tuples(st.just("reset")),
        st.tuples(st.just("chk")),
        st.tuples(st.just("bpadd"), aspec, st.integers(1, 16), st.integers(0, 2)),
        st.tuples(st.just("bpadd"), aspec, st.integers(1, 16), st.integers(0, 2)),
        st.tuples(st.just("bpdel"), st.integers(0, 7), st.sampled_from([0, 0, 1])),
        st.tuples(st.just("bpclear")),
        st.tuples(st.just("endian"), st.integers(0, 1)),
        st.tuples(st.just("exc"), st.integers(0, len(EXC_VALUES) - 1)),
    )
    history = st.tuples(st.lists(op_map, min_size=1, max_size=3), st.one_of(st.lists(ops, min_size=1, max_size=max_ops),
                                 st.lists(ops, min_size=12, max_size=max_ops))) \
        .map(lambda t: list(t[0]) + list(t[1]))
    return history


def sweep_histories():
    """deterministic stratum: every access size / offset / direction / byte order across a page
    boundary for every pair of permissions (or an unmapped neighbour), across a 2-byte middle
    page, and around a breakpoint"""
    out = []
    B = 0x1010
    for p1, p2 in itertools.product([3, 1, 2, 0], [3, 1, 2, 0, None]):
        for big in (0, 1):
            for k in range(4):
                n = 1 << k
                for a in range(B - n, B + 1):
                    for rw in (0, 1):
                        ops = [["map", [0, 0x1000, 0], 6, p1, 0x10]]
                        if p2 is not None:
                            ops.append(["map", [0, B, 0], 6, p2, 0x80])
                        ops += [["endian", big], ["insn", 1, [[rw, [0, a, 0], k, 0xF1E2D3C4B5A69788]]],
                                ["hread", [0, 0x1000, 0], 16]]
                        out.append(("pair", ops))
    for p2, p3 in itertools.product([3, 1, 2, 0], [3, 0, None]):
        for big in (0, 1):
            for k in range(4):
                n = 1 << k
                for a in range(B - n, B + 1):
                    for rw in (0, 1):
                        ops = [["map", [0, 0x1000, 0], 6, 3, 0x10], ["map", [0, B, 0], 2, p2, 0x80]]
                        if p3 is not None:
                            ops.append(["map", [0, B + 2, 0], 6, p3, 0xC0])
                        ops += [["endian", big], ["insn", 1, [[rw, [0, a, 0], k, 0x0123456789ABCDEF]]]]
                        out.append(("tiny-middle-page", ops))
    for bacc in range(3):
        for k in range(4):
            n = 1 << k
            for a in range(0x1008 - n, 0x100C + 1):
                for rw in (0, 1):
                    ops = [["map", [0, 0x1000, 0], 8, 3, 0x33], ["bpadd", [0, 0x1008, 0], 4, bacc],
                           ["insn", 1, [[rw, [0, a, 0], k, 0x1122334455667788]]],
                           ["bpdel", 0, 0], ["exc", 0], ["chk"]]
                    out.append(("breakpoint", ops))
    # zero-sized pages next to / at the base of / inside a page, mapped before and after it
    for zbase in (0x0FFF, 0x1000, 0x1001, 0x100F, 0x1010, 0x1011):
        for order in (0, 1):
            z = ["map", [0, zbase, 0], 0, 3, 0]
            pg = ["map", [0, 0x1000, 0], 6, 3, 0x44]
            extra = ["map", [0, 0x2000, 0], 6, 3, 0x55]
            ops = ([z, pg] if order == 0 else [pg, z]) + [extra]
            ops += [["mapped", [0, 0x1000, 0], 16], ["hread", [0, 0x1000, 0], 16], ["hget", [0, 0x1001, 0], 2],
                    ["insn", 1, [[0, [0, 0x1000, 0], 2, 0], [1, [0, 0x1004, 0], 2, 0x55AA55AA]]],
                    ["prot", [0, 0x1000, 0], 1], ["unmap", 0, 0], ["mapped", [0, 0x1008, 0], 1]]
            out.append(("zero-sized", ops))
    return out


def ddmin_ops(ops, want, budget=150):
    if want == "process-died":
        def still(cand):
            st, val, _ = run_isolated(lambda note: run_ops(cand)[0], timeout_s=60)
            return st == "died"
        return hyp.ddmin_list(ops, still, budget=min(budget, 60))

    def still(cand):
        return any(b == want for b, _, _ in run_ops(cand)[0])
    st, val, _ = run_isolated(lambda note: hyp.ddmin_list(ops, still, budget=budget), timeout_s=600)
    return val if st == "ok" else ops


class C24(Check):
    pid = "C24"
    needs_build = True
    level = "exploration"
    technique = "model-based random histories + boundary sweep vs. a plain-Python byte map"
    level_text = ("bounded random operation histories and an exhaustive page-boundary sweep compared step by step "
                  "with an independent byte-map model; no claim beyond the explored histories")
    rule = ("random: Hypothesis lists of operations (add/remove page incl. overlapping, adjacent, zero-sized; "
            "set_mem_access; host set_mem/get_mem/get_uN/set_uN/is_mapped; emulated vm_MEM_LOOKUP/WRITE_08..64 via "
            "ctypes bracketed like a jitted instruction; memory breakpoints; access log; both byte orders; "
            "exception flags) over addresses 0..0x3fff with pages of 0..256 bytes, addresses chosen relative to "
            "live page starts/ends; deterministic sweep: every size/offset/direction/byte order across a boundary "
            "for every pair of page permissions or an unmapped neighbour, across a 2-byte middle page, around a "
            "breakpoint, and zero-sized pages around a page. Non-trivial: the history contains an emulated access "
            "touching more than one page (or a page and unmapped bytes), an accepted zero-sized page or a refused "
            "overlapping mapping; distinct by operation list.")
    assumptions = [
        "the Vm is initialised like Jitter does (init_memory_page_pool/init_code_bloc_pool/init_memory_breakpoint, "
        "byte order set explicitly); access sizes are 8/16/32/64 bits; all addresses < 0x4000 (no 2^64 wrap-around)",
        "emulated accesses are the exported vm_MEM_LOOKUP_NN/vm_MEM_WRITE_NN followed by check_memory_breakpoint, "
        "the sequence generated for every jitted instruction; a pending EXCEPT_ACCESS_VIOL is cleared with "
        "set_exception before the next access so that each fault is observable",
        "not demanded (statement silent): atomicity of a failing host write, permissions on host accesses, whether "
        "faulting or host accesses appear in the access log / trigger breakpoints, acceptance of zero-sized pages, "
        "breakpoints of size 0, removing a page through an inner address",
    ]

    def nshards(self, tier):
        return 16

    def run_shard(self, tier, seed, shard, nshards):
        """one forked child per shard runs the sweep slice and the random batches; it journals the
        history it is about to run and the partial result after each batch, so a dying child
        yields an attributed failure and loses one batch at most"""
        res = ShardResult()
        nbatch, per, max_ops = (2, 300, 40) if tier == "quick" else (12, 1200, 60)

        def batches():
            yield "sweep", [h for i, h in enumerate(sweep_histories()) if i % nshards == shard]
            for b in range(nbatch):
                out = []
                hyp.survey(strategies(max_ops), per, derive_seed(seed, "c24", b),
                           lambda ops: out.append(("random", ops)))
                yield "random%d" % b, out

        def child(note):
            for kind, hs in batches():
                part = ShardResult()
                note(("batch", kind))
                for label, ops in hs:
                    note(("history", ops))
                    fails, stats, nt = run_ops(ops)
                    part.case(nontrivial_key=repr(ops) if nt else None,
                              sample={"ops": ops} if (nt and part.evaluations % 97 == 1) else None)
                    part.counters["histories:" + label] += 1
                    part.counters["history_steps"] += len(ops)
                    for kk, v in stats.items():
                        part.counters[kk] += v
                    for bk, d, stepi in fails:
                        part.fail(bk, d, {"ops": ops[:stepi + 1], "want": bk})
                note(("part", part))
            return True

        state = {"batch": None, "history": None}

        def on_note(obj):
            tag, val = obj
            if tag == "part":
                res.evaluations += val.evaluations
                res.nontrivial |= val.nontrivial
                res.failures.extend(val.failures)
                res.counters.update(val.counters)
                for smp in val.samples:
                    if len(res.samples) < res.max_samples:
                        res.samples.append(smp)
                state["history"] = None
            else:
                state[tag] = val

        st, val, _ = run_isolated(child, timeout_s=1200 if tier == "quick" else 6000, on_note=on_note)
        if st == "raised":
            raise RuntimeError("C24 child raised:\n%s" % val)
        if st == "timeout":
            res.dropped["shard-timeout-in:%s" % state["batch"]] += 1
        elif st == "died":
            res.dropped["batches-lost-after-worker-death"] += 1
            if state["history"] is None:
                raise RuntimeError("C24 child died (%s) outside any history (batch %s)" % (val, state["batch"]))
            res.fail("process-died", "worker %s while running the recorded history" % val,
                     {"ops": state["history"], "want": "process-died"})
        res.exhaustive["boundary-sweep"] = (st == "ok")
        return res

    def replay(self, case):
        ops = case["ops"]
        st, val, _ = run_isolated(lambda note: run_ops(ops)[0], timeout_s=120)
        if st == "died":
            return Failure("process-died", "worker %s while replaying" % val, case)
        if st != "ok":
            raise RuntimeError("C24 replay: %s %s" % (st, val))
        if not val:
            return None
        want = case.get("want")
        for b, d, _ in val:
            if b == want:
                return Failure(b, d, case)
        b, d, _ = val[0]
        return Failure(b, d, case)

    def shrink(self, failure, tier):
        ops = list(failure.case["ops"])
        small = ddmin_ops(ops, failure.bucket, budget=150 if tier == "quick" else 600)
        case = {"ops": small, "want": failure.bucket}
        f = self.replay(case)
        if f is None or f.bucket != failure.bucket:
            return failure
        return f


CHECK = C24()
