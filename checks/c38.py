"""C38 — data-flow analyses match their path-based definitions.

Generated: IR graphs over 3 data registers + 1 flag (x86_32 model-call lifter): structured shapes
(vlib.irgraphgen.graph: diamonds, multi-way, counted / while / irreducible loops, loop through the
head, early exits) and unstructured random CFGs of 1..6 blocks (any jump targets: self loops,
unreachable blocks, loops without exit).

Oracle: exact reachability on the product graph of program points (block, line), no fixpoint on
sets, one BFS per definition / per variable:
  * definition (b', i') of lvalue v reaches point (b, i)  <=>  a path of points from (b', i'+1) to
    (b, i) exists none of whose AssignBlocks assigns v                      -> ReachingDefinitions
  * def-use edge (b', i', r) -> (b, i, lval)  <=>  AssignBlock i of b reads r in the source of lval
    (deref_mem: also inside memory pointers and in the pointer of a memory lval) and that definition
    reaches (b, i)                                                            -> DiGraphDefUse
  * identifier v live at point p  <=>  a path from p exists that reaches an AssignBlock reading v
    (or the end of a leaf block when v is an output register) before any AssignBlock writing v
                                                              -> DiGraphLiveness / ...IRA / ...SSA
    (SSA: the arguments of a Phi are read on the edge coming from the predecessor that carries
    their definition, the Phi line itself is only compared on its var_out; judged on the fresh SSA form
    and on the SSA form after a copy propagation done by this check, buckets live:ssa-propagated:*).
Contract read from the classes: reaching definitions are keyed by lvalue expression (memory lvalues
syntactically), points (b, 0..len(b)); liveness is per AssignBlock var_in/var_out over ExprId and
ExprMem elements -- only ExprId elements are demanded here; leaves that are blocks receive
lifter.get_out_regs(); compute_liveness() is documented to "compute the liveness information for the
digraph", i.e. for every block of it.
"""
import collections

from vlib.runner import Check, ShardResult, Failure
from vlib import hyp
from vlib import irgraphgen as gg

_state = {}


def voc():
    if "voc" not in _state:
        _state["voc"] = gg.Vocab(nvars=3, flags=1, small=False, mem=True, calls=False, rich=False, ncounters=2)
    return _state["voc"]


# ---------------------------------------------------------------------------------- oracle

def cn(e):
    return e.__class__.__name__


def reads(e, deref, out=None, top=True):
    """elements read by expression e: identifiers and memory cells.  deref=False: the outermost memory
    cells and the identifiers outside them; deref=True: also everything inside pointers."""
    if out is None:
        out = set()
    k = cn(e)
    if k == "ExprId":
        out.add(e)
    elif k == "ExprMem":
        out.add(e)
        if deref:
            reads(e.ptr, deref, out)
    elif k == "ExprSlice":
        reads(e.arg, deref, out)
    elif k in ("ExprOp", "ExprCompose"):
        for a in e.args:
            reads(a, deref, out)
    elif k == "ExprCond":
        reads(e.cond, deref, out)
        reads(e.src1, deref, out)
        reads(e.src2, deref, out)
    return out


class Prog(object):
    """points of an IRCFG: (b, i), 0 <= i <= len(b)"""

    def __init__(self, ircfg):
        self.blocks = {lk: [list(ab.items()) for ab in blk] for lk, blk in ircfg.blocks.items()}
        self.succ = {lk: [s for s in ircfg.successors(lk) if s in self.blocks] for lk in self.blocks}
        self.allsucc = {lk: list(ircfg.successors(lk)) for lk in self.blocks}
        self.pred = {lk: [] for lk in self.blocks}
        for lk, ss in self.succ.items():
            for s in ss:
                self.pred[s].append(lk)
        self.writes = {lk: [set(d for d, _ in ab) for ab in abs_] for lk, abs_ in self.blocks.items()}

    def reaching(self):
        """{(b, i): {lval: set((b', i'))}}"""
        out = {(b, i): {} for b, abs_ in self.blocks.items() for i in range(len(abs_) + 1)}
        for b0, abs_ in self.blocks.items():
            for i0, ab in enumerate(abs_):
                for v, _ in ab:
                    seen = set()
                    todo = [(b0, i0 + 1)]
                    while todo:
                        p = todo.pop()
                        if p in seen:
                            continue
                        seen.add(p)
                        out[p].setdefault(v, set()).add((b0, i0))
                        b, i = p
                        if i < len(self.blocks[b]):
                            if v not in self.writes[b][i]:
                                todo.append((b, i + 1))
                        else:
                            for s in self.succ[b]:
                                todo.append((s, 0))
        return out

    def defuse(self, reach, deref):
        nodes, edges = set(), set()
        for b, abs_ in self.blocks.items():
            for i, ab in enumerate(abs_):
                for lval, src in ab:
                    nodes.add((b, i, lval))
                    rs = reads(src, deref)
                    if deref and cn(lval) == "ExprMem":
                        reads(lval.ptr, deref, rs)
                    for r in rs:
                        for (b2, i2) in reach[(b, i)].get(r, ()):
                            edges.add(((b2, i2, r), (b, i, lval)))
        return nodes, edges

    def liveness(self, out_regs, phi_parents=None):
        """{(b, i): set of ExprId live at the point}.  out_regs: identifiers live at the end of leaf blocks
        (blocks without any successor).  phi_parents: {block: {arg: set(pred blocks)}} for SSA graphs: the
        first AssignBlock of these blocks is a Phi line whose arguments are read at the end of the
        predecessors instead."""
        phi_parents = phi_parents or {}
        live = {(b, i): set() for b, abs_ in self.blocks.items() for i in range(len(abs_) + 1)}
        gen = {}
        for b, abs_ in self.blocks.items():
            for i, ab in enumerate(abs_):
                g = set()
                if not (i == 0 and b in phi_parents):
                    for d, s in ab:
                        for r in reads(s, True):
                            if cn(r) == "ExprId":
                                g.add(r)
                        if cn(d) == "ExprMem":
                            for r in reads(d.ptr, True):
                                if cn(r) == "ExprId":
                                    g.add(r)
                gen[(b, i)] = g
        seeds = collections.defaultdict(list)   # var -> points where it is live by a direct read
        for p, g in gen.items():
            for v in g:
                seeds[v].append(p)
        for b, abs_ in self.blocks.items():
            if not self.allsucc[b]:
                for v in out_regs:
                    seeds[v].append((b, len(abs_)))
        for b, a2p in phi_parents.items():
            for a, ps in a2p.items():
                if cn(a) != "ExprId":
                    continue
                for p in ps:
                    if p in self.blocks:
                        seeds[a].append((p, len(self.blocks[p])))
        for v, pts in seeds.items():
            seen = set()
            todo = list(pts)
            while todo:
                p = todo.pop()
                if p in seen:
                    continue
                seen.add(p)
                live[p].add(v)
                b, i = p
                if i > 0:
                    if v not in self.writes[b][i - 1]:
                        todo.append((b, i - 1))
                else:
                    for q in self.pred[b]:
                        todo.append((q, len(self.blocks[q])))
        return live


def phi_parents_oracle(prog, ircfg):
    """{block: {phi argument: set(predecessors carrying it)}}: from the end of each predecessor walk the
    graph backwards; the argument attached to the predecessor is the one whose definition is met first (all
    backward paths must agree, else None is returned: not a valid SSA graph for this purpose)."""
    out = {}
    for b, abs_ in prog.blocks.items():
        if not abs_ or not abs_[0]:
            continue
        if not all(cn(s) == "ExprOp" and s.op == "Phi" for _, s in abs_[0]):
            continue
        a2p = {}
        for d, s in abs_[0]:
            args = set(s.args)
            for p in prog.pred[b]:
                hit = set()
                seen = set()
                todo = [p]
                while todo:
                    n = todo.pop()
                    if n in seen:
                        continue
                    seen.add(n)
                    found = None
                    for i in reversed(range(len(prog.blocks[n]))):
                        # the Phi line of the phi block itself defines d, not an argument
                        w = prog.writes[n][i] & args
                        if w:
                            found = w
                            break
                    if found:
                        hit |= found
                    else:
                        todo.extend(prog.pred[n])
                if len(hit) != 1:
                    return None
                a2p.setdefault(hit.pop(), set()).add(p)
        out[b] = a2p
    return out


# ---------------------------------------------------------------------------------- judge

def fmt_pt(p):
    return "(%s, %d)" % (p[0], p[1])


def judge(graph, stats=None):
    """-> list of (bucket, detail)"""
    from miasm.analysis.data_flow import ReachingDefinitions, DiGraphDefUse, DiGraphLiveness, \
        DiGraphLivenessIRA, DiGraphLivenessSSA, AssignblkNode
    from miasm.analysis.ssa import SSADiGraph
    fails = []
    lifter, ircfg, keys = gg.build(graph)
    head = keys[graph["head"]]
    prog = Prog(ircfg)

    # ---- reaching definitions
    want = prog.reaching()
    rd = ReachingDefinitions(ircfg)
    bad = None
    for p in sorted(want, key=lambda p: (p[0].key, p[1])):
        got = rd.get(p)
        if got is None:
            bad = ("reach:point-missing", "no entry for point %s" % fmt_pt(p))
            break
        for v in set(want[p]) | set(got):
            w, g = want[p].get(v, set()), set(got.get(v, set()))
            if w != g:
                kind = "missing" if w - g else "extra"
                bad = ("reach:%s" % kind, "at %s lvalue %s: path-based %s, ReachingDefinitions %s"
                       % (fmt_pt(p), v, sorted(map(fmt_pt, w)), sorted(map(fmt_pt, g))))
                break
        if bad:
            break
    if bad:
        fails.append(bad)
    extra_pts = set(rd) - set(want)
    if extra_pts and not bad:
        fails.append(("reach:unknown-point", "entries for %s" % sorted(map(fmt_pt, extra_pts))))

    # ---- def-use
    for deref in (False, True):
        wn, we = prog.defuse(want, deref)
        du = DiGraphDefUse(rd, deref_mem=deref)
        gn = set((n.label, n.index, n.var) for n in du.nodes())
        ge = set(((a.label, a.index, a.var), (b.label, b.index, b.var)) for a, b in du.edges())
        if bad:
            # keep the def-use judgement independent of a reaching-definitions failure: recompute the
            # expected edges from miasm's own reaching sets would hide nothing new; skip
            break
        if gn != wn:
            fails.append(("defuse:deref=%s:nodes" % deref, "nodes differ: missing %s extra %s"
                          % (sorted(map(str, wn - gn))[:4], sorted(map(str, gn - wn))[:4])))
        elif ge != we:
            kind = "missing" if we - ge else "extra"
            d = sorted(map(str, (we - ge) or (ge - we)))[:4]
            fails.append(("defuse:deref=%s:edge-%s" % (deref, kind), "def-use edges %s: %s" % (kind, d)))
        if stats is not None:
            stats["defuse-edges"] += len(we)

    # ---- liveness
    out_regs = set(lifter.get_out_regs(None))

    def cmp_live(name, lv, live, prog_, skip_in0=()):
        for b, abs_ in sorted(prog_.blocks.items(), key=lambda kv: kv[0].key):
            blk = lv.blocks.get(b)
            if blk is None:
                return ("live:%s:block-missing" % name, "no liveness record for block %s" % b)
        for b, abs_ in sorted(prog_.blocks.items(), key=lambda kv: kv[0].key):
            blk = lv.blocks[b]
            for i in range(len(abs_)):
                for what, got, p in (("in", blk.infos[i].var_in, (b, i)), ("out", blk.infos[i].var_out, (b, i + 1))):
                    if what == "in" and i == 0 and b in skip_in0:
                        continue
                    g = set(x for x in got if cn(x) == "ExprId")
                    w = live[p]
                    if g != w:
                        never = sorted((x for x in prog_.blocks if x not in lv.visited), key=lambda x: x.key)
                        if never:
                            # root cause: compute_liveness never visited some block at all
                            return ("live:%s:block-never-computed" % name,
                                    "compute_liveness never visited block(s) %s (successors of the first: %s); first "
                                    "difference: var_%s of line %d of %s: path-based %s, computed %s"
                                    % ([str(x) for x in never], [str(x) for x in prog_.allsucc[never[0]]], what, i, b,
                                       sorted(map(str, w)), sorted(map(str, g))))
                        kind = "missing" if w - g else "extra"
                        return ("live:%s:%s" % (name, kind),
                                "var_%s of line %d of %s: path-based %s, computed %s"
                                % (what, i, b, sorted(map(str, w)), sorted(map(str, g))))
        return None

    def compute(lv):
        """run compute_liveness, recording which blocks it visits"""
        lv.visited = set()
        orig = lv.back_propagate_compute

        def wrap(block):
            lv.visited.add(block.loc_key)
            return orig(block)
        lv.back_propagate_compute = wrap
        lv.compute_liveness()

    live0 = prog.liveness(set())
    lv = DiGraphLiveness(ircfg)
    compute(lv)
    r = cmp_live("base", lv, live0, prog)
    if r:
        fails.append(r)
    live1 = prog.liveness(out_regs)
    lv = DiGraphLivenessIRA(ircfg)
    lv.init_var_info(lifter)
    compute(lv)
    r = cmp_live("ira", lv, live1, prog)
    if r:
        fails.append(r)
    if stats is not None:
        stats["live-points"] += sum(len(v) for v in live1.values())

    # ---- SSA liveness (needs a graph connected from its head)
    reach_blocks = gg.reachable(prog.allsucc, head)
    if set(prog.blocks) <= reach_blocks:
        ssa_cfg = gg.copy_ircfg(ircfg)
        ssa = SSADiGraph(ssa_cfg)
        ssa.transform(head)
        prog2 = Prog(ssa_cfg)
        pp = phi_parents_oracle(prog2, ssa_cfg)
        if pp is None:
            if stats is not None:
                stats["ssa:phi-argument-ambiguous"] += 1
        else:
            live2 = prog2.liveness(out_regs, pp)
            lv = DiGraphLivenessSSA(ssa_cfg)
            lv.init_var_info(lifter)
            compute(lv)
            r = cmp_live("ssa", lv, live2, prog2, skip_in0=set(pp))
            if r:
                fails.append(r)
            if stats is not None:
                stats["ssa-graphs"] += 1
                stats["ssa-phi-blocks"] += len(pp)
            # the same on the SSA form after a copy propagation (uses of x replaced by y when x's definition is
            # the copy x = y; Phi arguments untouched): Phi sources are then also read by ordinary lines, which
            # is the shape DiGraphLivenessSSA sees inside IRCFGSimplifierSSA after PropagateExpressions
            cfg3 = gg.copy_ircfg(ssa_cfg)
            if gg.ssa_copy_propagate(cfg3):
                prog3 = Prog(cfg3)
                pp3 = phi_parents_oracle(prog3, cfg3)
                if pp3 is not None:
                    live3 = prog3.liveness(out_regs, pp3)
                    lv = DiGraphLivenessSSA(cfg3)
                    lv.init_var_info(lifter)
                    compute(lv)
                    r = cmp_live("ssa-propagated", lv, live3, prog3, skip_in0=set(pp3))
                    if r:
                        fails.append(r)
                    if stats is not None:
                        stats["ssa-propagated-graphs"] += 1
    elif stats is not None:
        stats["ssa:skipped-unreachable-blocks"] += 1
    return fails


def features(graph):
    """(has loop, variable defined in >= 2 blocks)"""
    defs = collections.defaultdict(set)
    succ = {}
    m = None
    for b in graph["blocks"]:
        tg = set()
        for ab in b["assignblks"]:
            for d, s in ab:
                if cn(d) == "ExprId" and d.name == "IRDst":
                    _locs(s, tg)
                else:
                    defs[str(d)].add(b["loc"])
        succ[b["loc"]] = tg
    loop = any(n in gg.reachable(succ, s) for n in succ for s in succ[n])
    multi = any(len(v) >= 2 for v in defs.values())
    return loop, multi


def _locs(e, out):
    k = cn(e)
    if k == "ExprLoc":
        out.add(e.loc_key.key)
    elif k == "ExprCond":
        _locs(e.src1, out)
        _locs(e.src2, out)


class C38(Check):
    pid = "C38"
    rule = ("Hypothesis: structured IR graphs (vlib.irgraphgen: diamond / multi-way / counted, while, irreducible "
            "loops / loop through the head / early exits, <= 12 blocks) and unstructured random CFGs of 1..6 blocks "
            "over 3 data registers, 1 flag, 2 counters, stack and register-based memory cells; x86_32 model-call "
            "lifter. ReachingDefinitions, DiGraphDefUse (deref_mem False/True), DiGraphLiveness, DiGraphLivenessIRA "
            "and DiGraphLivenessSSA (on the SSADiGraph of the graph) compared point by point with BFS reachability "
            "on the (block, line) product graph. Non-trivial: the graph has a cycle and some lvalue is assigned in "
            ">= 2 blocks; distinct by serialised graph.")
    assumptions = ["the edges of the IRCFG (IRCFG.add_irblock from IRDst) define the control flow",
                   "memory lvalues are variables by syntactic identity (the classes key them by expression)",
                   "liveness is demanded for ExprId elements only; var_in of a Phi line is not compared",
                   "a Phi argument is read on the edges from the predecessors whose backward-nearest definition it is"]
    level_text = ("randomized comparison of the five data-flow analyses with exact path-based oracles on small "
                  "graphs with loops")
    technique = "property-based testing against BFS reachability on the product (block, line) graph"

    def nshards(self, tier):
        return 32 if tier == "thorough" else 16

    def run_shard(self, tier, seed, shard, nshards):
        res = ShardResult()
        n = 480 if tier == "thorough" else 80
        structured = shard % 2 == 0
        strat = gg.graph(voc(), depth=3, max_blocks=10) if structured else gg.random_cfg(voc(), nblocks=(1, 6))
        cnt = [0]

        def one(g):
            cnt[0] += 1
            fails = judge(g, res.counters)
            loop, multi = features(g)
            res.counters["gen:structured" if structured else "gen:random"] += 1
            res.counters["has-loop"] += loop
            res.counters["blocks:%d" % min(len(g["blocks"]), 12)] += 1
            nt = loop and multi
            js = gg.ser(g)
            res.case(nontrivial_key=repr(js) if nt else None, sample=js if nt and cnt[0] % 97 == 1 else None)
            for b, d in fails:
                res.fail(b, d, {"graph": js})
        hyp.survey(strat, n, seed, one)
        return res

    def replay(self, case):
        g = gg.deser(case["graph"])
        fails = judge(g)
        if not fails:
            return None
        want = case.get("_bucket")
        for b, d in fails:
            if want is None or b == want:
                return Failure(b, d, case)
        b, d = fails[0]
        return Failure(b, d, case)

    def shrink(self, failure, tier):
        g = gg.deser(failure.case["graph"])

        def pred(x):
            try:
                return any(b == failure.bucket for b, _ in judge(x))
            except Exception:
                return False
        small = gg.shrink_graph(g, pred, budget=400 if tier == "quick" else 2000)
        for b, d in judge(small):
            if b == failure.bucket:
                return Failure(b, d, {"graph": gg.ser(small)})
        return failure


CHECK = C38()
