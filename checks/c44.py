"""C44 — Loading a binary maps its sections and imports faithfully.

PE: images built by API histories (vlib.binlab.PESim: 32/64-bit, page-aligned and low-alignment layouts, gaps,
raw size <, = and > virtual size, import descriptors with names and ordinals) are serialised and loaded with
vm_load_pe(vm, data, align_s=?, load_hdr=?) into a fresh VmMngr.Vm(), then preload_pe(vm, pe, libimp_pe()).
ELF: executables and shared objects linked on the spot (gcc -nostdlib -static 64/32-bit, -static-pie, -shared x4),
loaded with vm_load_elf(vm, data, base_addr=?) then preload_elf; variants with PF_W toggled, p_filesz reduced
(more zero padding) and p_memsz of the last segment enlarged; relocatable objects are loaded too (nothing to map).

Oracle: the file is read by the independent readers of vlib.binlab (no miasm code):
 * every section / PT_LOAD segment is readable at base + address over its whole virtual size and holds the file
   bytes (min(raw, virtual) of them) then zeros;
 * write permission: requested (IMAGE_SCN_MEM_WRITE / PF_W) => granted on every page of it; not requested => not
   granted when the unit owns its pages (PE: the loader's documented per-section mapping, i.e. all sections page
   aligned; ELF: no other PT_LOAD segment touches any of its 4 KiB pages);
 * every import slot (PE: FirstThunk[i] of every descriptor; ELF: every slot the import manager records, which
   must cover every R_*_JUMP_SLOT entry) holds a pointer-sized value v with libs.fad2info[v] == (base of that
   library, that function name / ordinal) and libs.fad2cname[v] the canonical name; no other loaded byte changes.
"""
import base64
import hashlib
import struct
import zlib

from vlib.runner import Check, ShardResult, Failure, derive_seed
from vlib import hyp, binlab

PAGE_READ, PAGE_WRITE = 1, 2


def _where(e):
    import traceback
    tb = traceback.extract_tb(e.__traceback__)
    for fr in reversed(tb):
        if "/miasm/" in fr.filename:
            return "%s:%s" % (fr.filename.split("/miasm/")[-1], fr.name)
    return "?"


def pack_file(data):
    return base64.b64encode(zlib.compress(bytes(data), 9)).decode()


def unpack_file(s):
    return zlib.decompress(base64.b64decode(s))


def read_mem(vm, addr, size):
    """-> bytes | None (not entirely mapped)"""
    if size == 0:
        return b""
    if not vm.is_mapped(addr, size):
        return None
    return vm.get_mem(addr, size)


def pages_of(lo, hi):
    return range(lo & ~0xFFF, hi, 0x1000)


def canon(libname, func):
    dn = libname.split(".")[0]
    if isinstance(func, int):
        return (str(dn), func)
    return "%s_%s" % (dn, func)


# ---------------------------------------------------------------------------------------------
# PE


def build_pe(ops):
    """Run a builder history.  -> (bytes, None) | (None, reason) when the builder itself breaks (C42's business)."""
    sim = binlab.PESim(allow_reloc_to=True)
    try:
        for op in ops:
            if op[0] == "imp":
                op = [op[0], op[1], op[2] & ~1, op[3]]      # thunk arrays in a fresh section (see C42 finding K-C42-2)
            sim.step(op)
        sim.finish()
    except hyp.CheckFailure as f:
        return None, f.bucket
    return sim.data, None


def judge_pe(data, align_s, load_hdr, info=None):
    """-> list of (bucket, detail)"""
    r = _judge_pe(data, align_s, load_hdr, info)
    return [r] if r else []


def _judge_pe(data, align_s, load_hdr, info=None):
    binlab.quiet_loggers()
    from miasm.jitter import VmMngr
    from miasm.jitter.loader.pe import vm_load_pe, preload_pe, libimp_pe
    raw = binlab.parse_pe_raw(data)
    base, psz = raw["base"], raw["wsize"] // 8
    secs = raw["sections"]
    aligned = all(s["addr"] & 0xFFF == 0 for s in secs)
    path = "aligned" if aligned else "unaligned"
    if info is not None:
        info["path"] = path
        info["nt"] = any(0 < s["rawsize"] < s["size"] for s in secs)
        info["nimports"] = sum(len(m["funcs"]) for m in raw["imports"])
    vm = VmMngr.Vm()
    try:
        pe = vm_load_pe(vm, data, align_s=align_s, load_hdr=load_hdr)
    except Exception as ex:
        return ("pe:exception:vm_load_pe:%s:%s@%s" % (path, type(ex).__name__, _where(ex)),
                "vm_load_pe(align_s=%r, load_hdr=%r) raised %r" % (align_s, load_hdr, ex))
    falign = max(raw["falign"], 1)

    def expected_image(s):
        vsize = s["size"]
        n = min(s["rawsize"], vsize)
        body = bytearray(data[s["offset"]:s["offset"] + n])
        body += b"\x00" * (n - len(body))
        return bytes(body) + b"\x00" * (vsize - n)

    slots = {}
    for m in raw["imports"]:
        for i, f in enumerate(m["funcs"]):
            slots[base + m["firstthunk"] + i * psz] = (m["dll"].decode("latin1"), f.decode("latin1") if isinstance(f, bytes) else f)

    def check_sections(when, mask_slots):
        for i, s in enumerate(secs):
            va = base + s["addr"]
            vsize = s["size"]
            if vsize == 0:
                continue
            got = read_mem(vm, va, vsize)
            what = "section %d %r rva %#x vsize %#x rawsize %#x offset %#x flags %#x" % (
                i, s["name"].rstrip(b"\x00"), s["addr"], vsize, s["rawsize"], s["offset"], s["flags"])
            if got is None:
                return ("pe:%s:section-not-mapped" % path, "%s: [%#x, %#x) is not entirely mapped (%s)" % (what, va, va + vsize, when))
            exp = bytearray(expected_image(s))
            got = bytearray(got)
            # bytes between the raw size and its round-up to the file alignment may come from the file
            # (a loader maps whole file-alignment units): not judged
            n = min(s["rawsize"], vsize)
            r = min((n + falign - 1) // falign * falign, vsize)
            exp[n:r] = got[n:r]
            if mask_slots:
                for a in slots:
                    if va <= a < va + vsize:
                        lo, hi = a - va, min(a - va + psz, vsize)
                        exp[lo:hi] = got[lo:hi]
            if got != exp:
                d = binlab._first_diff(got, exp)
                zone = "file-data" if d < n else "zero-padding"
                return ("pe:%s:contents:%s%s" % (path, zone, ":after-preload" if mask_slots else ""),
                        "%s: memory differs at +%#x: %s, expected %s" % (what, d, bytes(got[d:d + 16]).hex(), bytes(exp[d:d + 16]).hex()))
        return None

    r = check_sections("after vm_load_pe", False)
    if r:
        return r
    # permissions
    for i, s in enumerate(secs):
        va, vsize = base + s["addr"], s["size"]
        if vsize == 0:
            continue
        want_w = bool(s["flags"] & 0x80000000)
        for pa in pages_of(va, va + vsize):
            a = max(pa, va)
            acc = vm.get_mem_access(a)
            if not acc & PAGE_READ:
                return ("pe:%s:perm:not-readable" % path, "section %d at %#x: access %d" % (i, a, acc))
            if want_w and not acc & PAGE_WRITE:
                return ("pe:%s:perm:write-requested-not-granted" % path,
                        "section %d (flags %#x) at %#x: access %d" % (i, s["flags"], a, acc))
            if aligned and not want_w and acc & PAGE_WRITE:
                return ("pe:%s:perm:write-granted-not-requested" % path,
                        "section %d (flags %#x, page aligned, owns its pages) at %#x: access %d" % (i, s["flags"], a, acc))
    # imports
    libs = libimp_pe()
    try:
        dyn = preload_pe(vm, pe, libs)
    except Exception as ex:
        return ("pe:exception:preload_pe:%s@%s" % (type(ex).__name__, _where(ex)), "preload_pe raised %r" % (ex,))
    for a, (dll, fn) in sorted(slots.items()):
        got = read_mem(vm, a, psz)
        if got is None:
            return ("pe:import-slot:unmapped", "slot %#x of %s!%r" % (a, dll, fn))
        v = int.from_bytes(got, "little")
        libname = dll.lower().strip(" ")
        if "." not in libname:
            libname += ".dll"
        what = "slot %#x (%d-bit) of %s!%r holds %#x" % (a, psz * 8, dll, fn, v)
        if v not in libs.fad2info:
            return ("pe:import-slot:not-a-stub", "%s which is no stub address known to the import manager" % what)
        libad, back = libs.fad2info[v]
        if libs.name2off.get(libname) != libad or back != fn:
            inv = dict((x, y) for y, x in libs.name2off.items())
            return ("pe:import-slot:maps-back-to-other-function", "%s which maps back to %s!%r" % (what, inv.get(libad), back))
        if libs.fad2cname.get(v) != canon(libname, fn):
            return ("pe:import-slot:cname", "%s, fad2cname gives %r" % (what, libs.fad2cname.get(v)))
        if dyn.get(canon(libname, fn)) != v:
            return ("pe:import-slot:returned-map", "%s, preload_pe returned %r for it" % (what, dyn.get(canon(libname, fn))))
    return check_sections("after preload_pe", True)


# ---------------------------------------------------------------------------------------------
# ELF


def mutate_elf(data, raw, muts):
    """Program-header variants: toggle PF_W, reduce p_filesz, enlarge p_memsz of the highest segment."""
    data = bytearray(data)
    e = raw["endian"]
    eh = raw["ehdr"]
    loads = [i for i, p in enumerate(raw["phdrs"]) if p["type"] == 1]
    if not loads:
        return bytes(data)
    top = max(loads, key=lambda i: raw["phdrs"][i]["vaddr"])
    for sel, kind, amount in muts:
        i = loads[sel % len(loads)]
        p = raw["phdrs"][i]
        off = eh["phoff"] + i * eh["phentsize"]
        if raw["size"] == 32:
            o_filesz, o_memsz, o_flags, w = off + 16, off + 20, off + 24, "I"
        else:
            o_filesz, o_memsz, o_flags, w = off + 32, off + 40, off + 4, "Q"
        if kind % 3 == 0:
            (fl,) = struct.unpack_from(e + "I", data, o_flags)
            struct.pack_into(e + "I", data, o_flags, fl ^ 2)
        elif kind % 3 == 1:
            (fs,) = struct.unpack_from(e + w, data, o_filesz)
            if fs:
                struct.pack_into(e + w, data, o_filesz, fs - 1 - amount % fs)
        else:
            if i == top:
                (ms,) = struct.unpack_from(e + w, data, o_memsz)
                struct.pack_into(e + w, data, o_memsz, ms + 1 + amount % 0x3000)
    return bytes(data)


# (e_machine, r_type): R_X86_64_JUMP_SLOT, R_386_JMP_SLOT, R_ARM_JUMP_SLOT, R_AARCH64_JUMP_SLOT, R_PPC_JMP_SLOT
JUMP_SLOT = {(62, 7), (3, 7), (40, 22), (183, 1026), (20, 21)}


def judge_elf(data, base_addr, do_preload, info=None):
    binlab.quiet_loggers()
    from miasm.jitter import VmMngr
    from miasm.jitter.loader.elf import vm_load_elf, preload_elf, libimp_elf
    raw = binlab.parse_elf_raw(data)
    e = raw["endian"]
    psz = raw["size"] // 8
    loads = [p for p in raw["phdrs"] if p["type"] == 1]
    if info is not None:
        info["nt"] = any(p["filesz"] < p["memsz"] for p in loads)
        info["loads"] = len(loads)
    vm = VmMngr.Vm()
    try:
        elf = vm_load_elf(vm, data, base_addr=base_addr)
    except Exception as ex:
        return [("elf:exception:vm_load_elf:%s@%s" % (type(ex).__name__, _where(ex)),
                 "vm_load_elf(base_addr=%#x) raised %r" % (base_addr, ex))]

    def seg_image(p):
        body = bytearray(data[p["offset"]:p["offset"] + p["filesz"]])
        body += b"\x00" * (p["filesz"] - len(body))
        return bytes(body) + b"\x00" * (max(p["memsz"], p["filesz"]) - p["filesz"])

    def check_segments(when, slots):
        for i, p in enumerate(loads):
            va = base_addr + p["vaddr"]
            size = max(p["memsz"], p["filesz"])
            if size == 0:
                continue
            what = "PT_LOAD %d vaddr %#x filesz %#x memsz %#x offset %#x flags %d" % (
                i, p["vaddr"], p["filesz"], p["memsz"], p["offset"], p["flags"])
            got = read_mem(vm, va, size)
            if got is None:
                return ("elf:segment-not-mapped", "%s: [%#x, %#x) is not entirely mapped (%s)" % (what, va, va + size, when))
            exp = bytearray(seg_image(p))
            got = bytearray(got)
            # a later segment overlapping this one in memory wins for the shared bytes (not generated by the
            # toolchain, but keep the oracle exact): skip bytes covered by another segment's file data
            for q in loads:
                if q is p:
                    continue
                lo, hi = max(q["vaddr"], p["vaddr"]), min(q["vaddr"] + q["filesz"], p["vaddr"] + size)
                if lo < hi:
                    exp[lo - p["vaddr"]:hi - p["vaddr"]] = got[lo - p["vaddr"]:hi - p["vaddr"]]
            for a in slots:
                if va <= a < va + size:
                    lo, hi = a - va, min(a - va + psz, size)
                    exp[lo:hi] = got[lo:hi]
            if got != exp:
                d = binlab._first_diff(got, exp)
                zone = "file-data" if d < p["filesz"] else "zero-padding"
                return ("elf:contents:%s%s" % (zone, ":after-preload" if slots else ""),
                        "%s: memory differs at +%#x: %s, expected %s" % (what, d, bytes(got[d:d + 16]).hex(), bytes(exp[d:d + 16]).hex()))
        return None

    fails = []
    r = check_segments("after vm_load_elf", ())
    if r:
        return [r]
    # permissions (one report per kind; the rest of the judgement continues)
    def seg_pages(p):
        lo = base_addr + p["vaddr"]
        return set(pages_of(lo, lo + max(p["memsz"], p["filesz"], 1)))
    for i, p in enumerate(loads):
        size = max(p["memsz"], p["filesz"])
        if size == 0:
            continue
        va = base_addr + p["vaddr"]
        want_w = bool(p["flags"] & 2)
        mine = seg_pages(p)
        owns = not any(mine & seg_pages(q) for q in loads if q is not p)
        for pa in sorted(mine):
            a = max(pa, va)
            acc = vm.get_mem_access(a)
            if want_w and not acc & PAGE_WRITE:
                fails.append(("elf:perm:write-requested-not-granted", "PT_LOAD %d (flags %d) at %#x: access %d" % (i, p["flags"], a, acc)))
                break
            if owns and not want_w and acc & PAGE_WRITE:
                fails.append(("elf:perm:write-granted-not-requested",
                              "PT_LOAD %d vaddr %#x memsz %#x p_flags %d (no PF_W, shares no page with another segment) is mapped "
                              "with access %d at %#x" % (i, p["vaddr"], p["memsz"], p["flags"], acc, a)))
                break
    if not do_preload or not loads:
        return fails
    libs = libimp_elf()
    try:
        preload_elf(vm, elf, libs)
    except Exception as ex:
        return fails + [("elf:exception:preload_elf:%s@%s" % (type(ex).__name__, _where(ex)), "preload_elf raised %r" % (ex,))]
    # what the file says: relocation entries with their symbol names (independent reading)
    by_slot = {}
    jump_slots = []
    for idx, rels in raw["reltabs"].items():
        sh = raw["shdrs"][idx]
        syms = raw["symtabs"].get(sh["link"])
        if syms is None:
            continue
        for r in rels:
            if r["symidx"] >= len(syms):
                continue
            name = syms[r["symidx"]]["name"].decode("latin1")
            by_slot.setdefault(r["offset"], set()).add(name)
            if (raw["ehdr"]["machine"], r["type"]) in JUMP_SLOT and name:
                jump_slots.append((r["offset"], name))
    resolved = {}
    for libad, funcs in libs.lib_imp2dstad.items():
        for fn, ads in funcs.items():
            for ad in ads:
                resolved[ad] = (libad, fn)
    for off, name in jump_slots:
        if off not in resolved:
            return fails + [("elf:import-slot:jump-slot-not-resolved", "JUMP_SLOT relocation at %#x for %r was not given a stub" % (off, name))]
    for ad, (libad, fn) in sorted(resolved.items()):
        if fn not in by_slot.get(ad, ()):
            return fails + [("elf:import-slot:not-an-import-of-that-name", "import manager records %r at %#x, the file has %r there"
                            % (fn, ad, sorted(by_slot.get(ad, ()))))]
        got = read_mem(vm, ad, psz)
        if got is None:
            return fails + [("elf:import-slot:unmapped", "slot %#x of %r" % (ad, fn))]
        v = int.from_bytes(got, "little" if e == "<" else "big")
        what = "slot %#x of %r holds %#x" % (ad, fn, v)
        if v not in libs.fad2info:
            return fails + [("elf:import-slot:not-a-stub", "%s which is no stub address known to the import manager" % what)]
        if libs.fad2info[v] != (libad, fn):
            return fails + [("elf:import-slot:maps-back-to-other-function", "%s which maps back to %r" % (what, libs.fad2info[v]))]
    if info is not None:
        info["resolved"] = len(resolved)
        info["jump_slots"] = len(jump_slots)
    r = check_segments("after preload_elf", tuple(resolved))
    if r:
        fails.append(r)
    return fails


# ---------------------------------------------------------------------------------------------


def judge_case(case, info=None):
    if case["kind"] == "pe":
        data, why = build_pe(case["ops"])
        if data is None:
            if info is not None:
                info["dropped"] = "PE builder failed on this history (%s): C42's domain" % why.split(":")[0]
            return []
        return judge_pe(data, case["align_s"], case["load_hdr"], info)
    data = unpack_file(case["elf_z"])
    raw = binlab.parse_elf_raw(data)
    data = mutate_elf(data, raw, case["muts"])
    out, seen = [], set()
    for b, d in judge_elf(data, case["base"], case["preload"], info):
        if b not in seen:
            seen.add(b)
            out.append((b, d))
    return out


ELF_LINKED = None


def linked_recipes():
    return [i for i, r in enumerate(binlab.elf_recipes()) if r[1] in ("exec", "dyn")]


class C44(Check):
    pid = "C44"
    needs_build = True
    rule = ("PE: Hypothesis builder histories (vlib.binlab.pe_history, 32/64-bit, aligned and low-alignment layouts) x "
            "(align_s, load_hdr) -> vm_load_pe + preload_pe; ELF: per shard 3 (quick) / 12 (thorough) freshly linked gcc "
            "executables / shared objects + one more recipe (mostly relocatable objects) + one of the four linked samples of "
            "example/samples (ARM, AArch64, big-endian PowerPC, x86-64 PIE), each x Hypothesis variants (base_addr, PF_W toggles, reduced "
            "p_filesz, enlarged last p_memsz) -> vm_load_elf + preload_elf. Non-trivial: a section / segment with raw size < "
            "virtual size; distinct by (builder history | file hash + variant, loader options).")
    assumptions = [
        "PE sections are in ascending rva order and do not overlap (PE specification; the loader relies on it); bytes between "
        "a section's raw size and its round-up to FileAlignment are not judged",
        "exact write permission is asserted for PE only on vm_load_pe's documented per-section path (every section page "
        "aligned; otherwise the loader documents one RW mapping for the whole image) and for ELF only for segments that share "
        "no 4 KiB page with another PT_LOAD segment",
        "preload_elf has no base parameter: import slots are judged for base_addr = 0 only; big-endian ELF inputs are "
        "relocatable objects (nothing to map) except the repository's md5_ppc32b executable; at most 8 descriptors x 5 functions per PE (stub-range exhaustion is C45)",
        "histories on which the PE builder itself fails (C42 findings) are dropped and counted",
    ]
    level_text = "generated-input search against independent file readers; no violation found is not a proof"
    technique = "differential: emulator memory after loading vs independent reading of the file"

    def nshards(self, tier):
        return 16

    def run_shard(self, tier, seed, shard, nshards):
        from hypothesis import strategies as st
        res = ShardResult()
        n_pe = 900 if tier == "thorough" else 45
        cnt = [0]

        def one_pe(t):
            ops, align_s, load_hdr = t
            cnt[0] += 1
            case = {"kind": "pe", "ops": ops, "align_s": align_s, "load_hdr": load_hdr}
            info = {}
            r = judge_case(case, info)
            if "dropped" in info:
                res.dropped[info["dropped"]] += 1
                return
            key = repr((ops, align_s, load_hdr)) if info.get("nt") else None
            res.case(nontrivial_key=key, sample=case if (key and cnt[0] % 20 == 1) else None)
            res.counters["pe:path:%s" % info.get("path")] += 1
            res.counters["pe:align_s=%s" % align_s] += 1
            res.counters["pe:import-slots"] += info.get("nimports", 0)
            for b, d in r:
                res.fail(b, d, dict(case, _bucket=b))
        hyp.survey(st.tuples(binlab.pe_history(max_ops=10, writes=False, align_choices=[0, 1, 2, 2, 2, 3, 4, 5, 6, 6]), st.booleans(), st.booleans()), n_pe, seed, one_pe)

        # deterministic stratum: one library with 255..300 imports next to a small one, both descriptor orders
        # (stub areas of neighbouring libraries are 0x1000 bytes apart, 0x10 per stub)
        if shard < 4:
            n = (255, 256, 257, 300)[shard]
            for order in (0, 1):
                descs = [[0, list(range(-1, -n - 1, -1)), False], [1, [1, 2, 3], False]]
                if order:
                    descs = descs[::-1]
                one_pe(([["init", 0, 0, 0, 0], ["sec", 1, 0x200, 0, 0, 5, 0], ["imp", descs, 0, 3]], True, True))
                res.counters["pe:many-imports"] += 1

        # ELF
        linked = linked_recipes()
        nrec = len(binlab.elf_recipes())
        per = 12 if tier == "thorough" else 3
        rot = derive_seed(seed, "rot")
        picks = [linked[(shard * per + j + rot) % len(linked)] for j in range(per)]
        picks.append((shard + rot) % nrec)                    # any recipe (mostly relocatable objects)
        ncases = 60 if tier == "thorough" else 10
        with binlab.Scratch("c44") as scratch:
            corpus = binlab.build_elf_corpus(scratch, "%d-%d" % (seed, shard), picks, res)
        extra = binlab.repo_elf_sample(shard % 8)
        if extra is not None:
            corpus.append(extra)
        mut = st.tuples(st.integers(0, 7), st.integers(0, 2), st.integers(0, 0xFFFF))
        variant = st.tuples(st.sampled_from([0, 0, 0x10000000, 0x7F0000000000, 0x555555554000]),
                            st.lists(mut, max_size=3))
        for n, (label, kind, data, src) in enumerate(corpus):
            fid = hashlib.blake2b(data, digest_size=8).hexdigest()
            packed = pack_file(data)
            res.counters["elf:file:" + label] += 1
            raw = binlab.parse_elf_raw(data)

            def one_elf(v, kind=kind, label=label, fid=fid, packed=packed, raw=raw):
                base, muts = v
                muts = [list(m) for m in muts]
                if kind != "dyn" or raw["size"] == 32 and base > 0xF0000000:
                    base = 0
                case = {"kind": "elf", "label": label, "elf_z": packed, "base": base, "muts": muts,
                        "preload": base == 0 and kind in ("exec", "dyn")}
                info = {}
                r = judge_case(case, info)
                key = (fid, base, muts) if info.get("nt") else None
                res.case(nontrivial_key=key)
                res.counters["elf:segments"] += info.get("loads", 0)
                res.counters["elf:resolved-slots"] += info.get("resolved", 0)
                res.counters["elf:jump-slots"] += info.get("jump_slots", 0)
                res.counters["elf:base=%s" % ("0" if base == 0 else "nonzero")] += 1
                for b, d in r:
                    res.fail(b, "%s: %s" % (label, d), dict(case, _bucket=b))
            # the unmodified file first, then variants
            one_elf((0, []))
            hyp.survey(variant, ncases, derive_seed(seed, shard, n), one_elf)
        return res

    def replay(self, case):
        r = judge_case(case)
        if not r:
            return None
        want = case.get("_bucket")
        for b, d in r:
            if b == want:
                r = [(b, d)]
        pre = "%s: " % case["label"] if case.get("label") else ""
        return Failure(r[0][0], pre + r[0][1], case)

    def shrink(self, failure, tier):
        case = dict(failure.case)
        if case["kind"] == "elf":
            def still(m):
                c = dict(case)
                c["muts"] = m
                return any(b == failure.bucket for b, _ in judge_case(c))
            if case["muts"]:
                if still([]):
                    case["muts"] = []
                elif len(case["muts"]) > 1:
                    case["muts"] = hyp.ddmin_list(case["muts"], still, budget=20)
        else:
            ops = case["ops"]
            head, tail = ops[:1], ops[1:]

            def still(t):
                c = dict(case)
                c["ops"] = head + t
                return any(b == failure.bucket for b, _ in judge_case(c))
            if len(tail) > 1:
                tail = hyp.ddmin_list(tail, still, budget=150)
            case["ops"] = head + tail
        r = [(b, d) for b, d in judge_case(case) if b == failure.bucket]
        if not r:
            return failure
        pre = "%s: " % case["label"] if case.get("label") else ""
        return Failure(r[0][0], pre + r[0][1], case)


CHECK = C44()
