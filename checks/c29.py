"""C29 — BoundedDict keeps its size and callback contract.

Model-based histories.  The first op of a history is the configuration
("init", max_size, min_size|None, n_initial_keys); the others are dictionary operations over
a pool of 12 integer keys.  The model is a plain dict + two use counters per key (uses since
the key was inserted, uses since the last resizing point) + the expected callback log.  Which keys
an eviction drops is *observed* (ties are free) and then judged:

* eviction only while inserting a NEW key that brings the size to max_size or more;
* the key just stored is held; len <= max_size after every operation;
* no dropped key was used strictly more than a kept one (under both ways of counting);
* with an explicit min_size the number of older keys kept is min_size-1 or min_size
  (docstring: "number of most used element to keep when resizing"; whether the new key is
  counted in is left free);
* the callback log since the previous operation is exactly the multiset of dropped keys;
* every held key maps to the last value stored; lookups of absent keys raise KeyError / return
  the default and change nothing;
* destruction calls back once per key still held.

Deleting an absent key is out of domain (every caller guards `del` with `in`).
"""
from vlib.runner import Check, ShardResult, Failure
from vlib import hyp
from vlib.hyp import CheckFailure

NKEYS = 12
DEFAULT_INIT = ["init", 3, None, 0]


class Sim(object):
    last = None

    def __init__(self):
        self.bd = None
        self.log = []
        self.evictions = 0
        self.evicted_keys = 0
        self.nops = 0
        Sim.last = self

    # ------------------------------------------------------------------
    def _init(self, op):
        from miasm.core.utils import BoundedDict
        _, mx, mn, ninit = op
        self.max_size = mx
        self.min_size = mn
        log = self.log
        init = {1000 + i: "i%d" % i for i in range(ninit)}
        self.vals = dict(init)
        self.c_total = {k: 1 for k in init}
        self.c_reset = {k: 1 for k in init}
        self.cfg = "max=%r,min=%r,init=%d" % (mx, mn, ninit)
        # root-cause tag: the default minimum rounds to zero
        self.tag = ":default-min_size-is-0" if (not mn and mx // 3 == 0) else ""
        self.bd = BoundedDict(mx, mn, initialdata=init if ninit else None, delete_cb=log.append)
        self._sync("init", set())

    def _fail(self, bucket, detail):
        raise CheckFailure(bucket, "[%s] after %d ops: %s" % (self.cfg, self.nops, detail))

    def _sync(self, what, dropped):
        """compare full state with the model; `dropped` = keys the operation was expected to drop"""
        bd = self.bd
        data = dict(bd.data)
        if sorted(self.log, key=repr) != sorted(dropped, key=repr):
            self._fail("%s:callback-log" % what, "callbacks %r, keys dropped %r" % (self.log, sorted(dropped, key=repr)))
        del self.log[:]
        if data != self.vals:
            self._fail("%s:content" % what, "holds %r, expected %r" % (data, self.vals))
        if len(bd) != len(self.vals) or sorted(bd.keys(), key=repr) != sorted(self.vals, key=repr) \
                or sorted(iter(bd), key=repr) != sorted(self.vals, key=repr):
            self._fail("%s:len-keys-iter" % what, "len %r keys %r, expected %r" % (len(bd), bd.keys(), sorted(self.vals, key=repr)))
        if len(data) > self.max_size:
            self._fail("%s:size-exceeds-max%s" % (what, self.tag), "holds %d keys" % len(data))

    # ------------------------------------------------------------------
    def step(self, op):
        if self.bd is None:
            if op[0] == "init":
                self._init(op)
                return
            self._init(DEFAULT_INIT)
        elif op[0] == "init":
            return
        self.nops += 1
        name = op[0]
        try:
            getattr(self, "op_" + name)(*op[1:])
        except CheckFailure:
            raise
        except Exception as e:
            self._fail("%s:exception:%s%s" % (name, type(e).__name__, self.tag), "%r raised %r" % (op, e))

    def op_set(self, k, v):
        bd = self.bd
        before = dict(self.vals)
        new = k not in before
        bd[k] = v
        after = dict(bd.data)
        if k not in after:
            self._fail("set:stored-key-not-held", "d[%r]=%r then key absent; holds %r" % (k, v, after))
        dropped = set(before) - set(after)
        kept = set(before) & set(after)
        if dropped:
            if not new:
                self._fail("set:evicts-on-update", "update of %r dropped %r" % (k, sorted(dropped)))
            if len(before) + 1 < self.max_size:
                self._fail("set:evicts-below-limit", "insert with %d held dropped %r" % (len(before), sorted(dropped)))
            self.evictions += 1
            self.evicted_keys += len(dropped)
            for e in dropped:
                for kk in kept:
                    if self.c_reset[e] > self.c_reset[kk] and self.c_total[e] > self.c_total[kk]:
                        self._fail("set:evicts-more-used-key",
                                   "dropped %r (uses %d/%d) but kept %r (uses %d/%d)"
                                   % (e, self.c_reset[e], self.c_total[e], kk, self.c_reset[kk], self.c_total[kk]))
            if self.min_size:
                n = len(before)
                allowed = {min(self.min_size - 1, n), min(self.min_size, n)}
                if len(kept) not in allowed:
                    self._fail("set:kept-count", "kept %d older keys of %d" % (len(kept), n))
            for e in dropped:
                del self.vals[e]
                del self.c_total[e]
                del self.c_reset[e]
        if new and len(before) + 1 >= self.max_size:
            # a resizing point (even when nothing had to be dropped): the implementation
            # restarts its use counters there
            for kk in self.c_reset:
                self.c_reset[kk] = 1
        if new:
            self.c_total[k] = 1
            self.c_reset[k] = 1
        else:
            self.c_total[k] += 1
            if not dropped:
                self.c_reset[k] += 1
        self.vals[k] = v
        self._sync("set", dropped)

    def op_get(self, k):
        try:
            v = self.bd[k]
        except KeyError:
            if k in self.vals:
                self._fail("get:KeyError-on-held-key", "d[%r]" % k)
            self._sync("get-absent", set())
            return
        if k not in self.vals:
            self._fail("get:value-for-absent-key", "d[%r] = %r" % (k, v))
        if v != self.vals[k]:
            self._fail("get:stale-value", "d[%r] = %r, last stored %r" % (k, v, self.vals[k]))
        self.c_total[k] += 1
        self.c_reset[k] += 1
        self._sync("get", set())

    def op_getd(self, k):
        v = self.bd.get(k, "dflt")
        exp = self.vals.get(k, "dflt")
        if v != exp:
            self._fail("get:stale-value", "d.get(%r) = %r, expected %r" % (k, v, exp))
        if k in self.vals:
            self.c_total[k] += 1
            self.c_reset[k] += 1
        self._sync("get", set())

    def op_in(self, k):
        r = k in self.bd
        r2 = self.bd.has_key(k)
        if r != (k in self.vals) or r2 != r:
            self._fail("contains", "%r in d gives %r/%r" % (k, r, r2))
        self._sync("contains", set())

    def op_del(self, i):
        if not self.vals:
            return
        k = sorted(self.vals, key=repr)[i % len(self.vals)]
        del self.bd[k]
        del self.vals[k]
        del self.c_total[k]
        del self.c_reset[k]
        self._sync("del", {k})

    def op_clear(self):
        dropped = set(self.vals)
        self.bd.clear()
        self.vals.clear()
        self.c_total.clear()
        self.c_reset.clear()
        self._sync("clear", dropped)

    def finish(self):
        if self.bd is None:
            self._init(DEFAULT_INIT)
        held = sorted(self.vals, key=repr)
        try:
            self.bd = None     # CPython: the last reference goes, __del__ runs now
        except Exception as e:
            self._fail("destroy:exception:%s" % type(e).__name__, repr(e))
        if sorted(self.log, key=repr) != held:
            self._fail("destroy:callback-log", "callbacks %r, keys held %r" % (self.log, held))


def history_strategy():
    from hypothesis import strategies as st

    @st.composite
    def init(draw):
        mx = draw(st.integers(1, 8))
        mn = draw(st.one_of(st.none(), st.integers(1, mx)))
        ninit = min(mx, draw(st.sampled_from([0, 0, 0, 1, 2, mx - 1, mx])))
        return ["init", mx, mn, ninit]
    key = st.integers(0, NKEYS - 1)
    op = st.one_of(
        st.tuples(st.just("set"), key, st.integers(0, 99)).map(list),
        st.tuples(st.just("set"), key, st.integers(0, 99)).map(list),
        st.tuples(st.just("set"), key, st.integers(0, 99)).map(list),
        st.tuples(st.just("get"), key).map(list),
        st.tuples(st.just("get"), key).map(list),
        st.tuples(st.just("getd"), key).map(list),
        st.tuples(st.just("in"), key).map(list),
        st.tuples(st.just("del"), st.integers(0, 7)).map(list),
        st.just(["clear"]),
    )
    return st.tuples(init(), st.lists(op, max_size=40)).map(lambda t: [t[0]] + t[1])


class C29(Check):
    pid = "C29"
    rule = ("Hypothesis histories: configuration (max_size 1..8, min_size None or 1..max_size, 0..max_size initial "
            "keys) then <=40 operations (set new/existing, [] lookup, get(), in/has_key, del of a held key, clear) over "
            "12 integer keys, then destruction; full content, len/keys/iter and the callback log compared with a dict "
            "model after every operation, evictions judged for legality (new key at the limit, least-used dropped, "
            "kept count). Non-trivial: the history contains >=1 eviction; distinct by history.")
    assumptions = ["a 'use' is a store or a [] / get() lookup of a held key; `in` is not a use",
                   "'most used' is violated only if a dropped key has strictly more uses than a kept one both since "
                   "insertion and since the last resizing point = insertion of a new key at the limit, whether or not "
                   "it dropped anything (the implementation restarts its counters there)",
                   "an eviction may happen as soon as the insertion brings the size to max_size (docstring: 'once an "
                   "upper limit max_size is reached')",
                   "deleting an absent key is out of domain (callers test membership first)"]
    level_text = ("randomized model-based testing of operation histories against a dict + use-counter + callback-log "
                  "model, every state compared")
    technique = "model-based stateful property testing (Hypothesis histories, dict model)"

    def nshards(self, tier):
        return 16

    def run_shard(self, tier, seed, shard, nshards):
        res = ShardResult()
        n = 12000 if tier == "thorough" else 1200

        def nontrivial(ops):
            s = Sim.last
            res.counters["evictions"] += s.evictions
            res.counters["evicted_keys"] += s.evicted_keys
            res.counters["cfg:max_size=%d" % ops[0][1]] += 1
            res.counters["cfg:min_size=%s" % ("None" if ops[0][2] is None else "explicit")] += 1
            if s.evictions:
                res.counters["histories_with_eviction"] += 1
            return s.evictions > 0
        hyp.survey_histories(res, history_strategy(), Sim, n, seed, nontrivial=nontrivial)
        return res

    def replay(self, case):
        return hyp.replay_history(Sim, case)

    def shrink(self, failure, tier):
        ops = failure.case["ops"]
        head, tail = ops[:1], ops[1:]

        def still(cand):
            f = hyp.run_history(Sim, head + cand)
            return f is not None and f.bucket == failure.bucket
        if len(tail) >= 2:
            tail = hyp.ddmin_list(tail, still)
        f = hyp.run_history(Sim, head + tail)
        if f is None or f.bucket != failure.bucket:
            return failure
        return Failure(f.bucket, f.detail, {"ops": head + tail})


CHECK = C29()
