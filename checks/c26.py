"""C26 — integer interval sets have exact set semantics.

Oracle: Python frozenset of integers.  Exhaustive stratum: every list of <= 2 raw bound
pairs over the universe 0..5 (1 333 lists, reversed / adjacent / nested included), every
ordered pair of such lists, every operation.  Random stratum: Hypothesis lists of <= 6
pairs over 0..40 (negative bounds too).
"""
import itertools

from vlib.runner import Check, ShardResult, Failure

U = 6


def model(bounds):
    s = set()
    for a, b in bounds:
        s.update(range(a, b + 1))
    return frozenset(s)


def to_set(iv):
    s = set()
    for a, b in iv.intervals:
        s.update(range(a, b + 1))
    return frozenset(s)


def canonical_ok(iv):
    """intervals sorted, non-empty, separated by a gap >= 1 (needed for == to be set equality)"""
    prev = None
    for a, b in iv.intervals:
        if a > b:
            return False
        if prev is not None and a <= prev + 1:
            return False
        prev = b
    return True


def judge(b1, b2):
    """-> (bucket, detail) or None"""
    from miasm.core.interval import interval
    try:
        i1 = interval([tuple(x) for x in b1])
        i2 = interval([tuple(x) for x in b2])
        s1, s2 = model(b1), model(b2)
        if to_set(i1) != s1 or not canonical_ok(i1):
            return ("construct", "interval(%r) = %r" % (b1, i1))
        if to_set(i2) != s2 or not canonical_ok(i2):
            return ("construct", "interval(%r) = %r" % (b2, i2))
        ops = (("union", lambda: i1 + i2, s1 | s2),
               ("union_list", lambda: i1.union([tuple(x) for x in b2]), s1 | s2),
               ("intersection", lambda: i1 & i2, s1 & s2),
               ("difference", lambda: i1 - i2, s1 - s2))
        for name, fn, exp in ops:
            r = fn()
            if to_set(r) != exp:
                return (name, "%r %s %r = %r, expected %s" % (i1, name, i2, r, sorted(exp)))
            if not canonical_ok(r):
                return (name + ":not-canonical", "%r %s %r = %r" % (i1, name, i2, r.intervals))
            # equality must be set equality: compare with an interval built from the model
            ref = interval([(x, x) for x in sorted(exp)])
            if not (r == ref) or (r != ref):
                return (name + ":eq", "%r != %r though same integers" % (r, ref))
        if to_set(i1) != s1 or to_set(i2) != s2:
            return ("operand-mutated", "%r %r" % (b1, b2))
        if (i1 == i2) != (s1 == s2) or (i1 != i2) != (s1 != s2):
            return ("eq", "%r == %r gives %r" % (i1, i2, i1 == i2))
        if (i2 in i1) != (s2 <= s1):
            return ("inclusion", "%r in %r gives %r" % (i2, i1, i2 in i1))
        lo = min([x for p in b1 for x in p] + [0]) - 2
        hi = max([x for p in b1 for x in p] + [0]) + 2
        for x in range(lo, hi + 1):
            if (x in i1) != (x in s1):
                return ("membership", "%d in %r gives %r" % (x, i1, x in i1))
        if i1.length != len(s1):
            return ("length", "%r length %r" % (i1, i1.length))
        exp_hull = (min(s1), max(s1)) if s1 else (None, None)
        if i1.hull() != exp_hull:
            return ("hull", "%r hull %r" % (i1, i1.hull()))
        if i1.empty != (not s1):
            return ("empty", "%r" % i1)
    except Exception as e:  # the operations are total on lists of integer pairs
        return ("exception:" + type(e).__name__, "%r %r: %r" % (b1, b2, e))
    return None


def nontrivial(b1, b2):
    """operands overlap or touch"""
    s1, s2 = model(b1), model(b2)
    if s1 & s2:
        return True
    return any((x + 1) in s2 or (x - 1) in s2 for x in s1)


class C26(Check):
    pid = "C26"
    rule = ("exhaustive: all ordered pairs of lists of <=2 raw (lo,hi) pairs over 0..5 (reversed, adjacent, "
            "nested included), ops union/intersection/difference/==/in/length/hull/empty vs Python sets; "
            "random: Hypothesis lists of <=6 pairs over -8..40. Non-trivial: the two operands overlap or touch; "
            "distinct by (list1, list2).")
    assumptions = ["interval bounds are Python ints; operands of binary operations are interval instances "
                   "(union also accepts a raw list, as its code does)"]

    def run_shard(self, tier, seed, shard, nshards):
        res = ShardResult()
        u = U + 1 if tier == "thorough" else U
        pairs = list(itertools.product(range(u), repeat=2))
        lists = [()] + [(p,) for p in pairs] + [(p, q) for p in pairs for q in pairs]
        n = 0
        step = 1
        # exhaustive stratum (quick: every 4th ordered pair by a fixed stride, thorough: all)
        idx = 0
        for i, b1 in enumerate(lists):
            if i % nshards != shard:
                continue
            for j, b2 in enumerate(lists):
                if step != 1 and (i * 7 + j) % step:
                    continue
                r = judge(b1, b2)
                nt = nontrivial(b1, b2)
                res.evaluations += 1
                if nt:
                    res.nontrivial_extra += 1   # (b1,b2) enumerated once each: distinct by construction
                if r is not None:
                    res.fail(r[0], r[1], {"b1": b1, "b2": b2})
                idx += 1
        res.counters["exhaustive_pairs"] = idx
        res.exhaustive["universe0..%d_lists<=2" % (u - 1)] = (step == 1)
        res.samples.append({"b1": lists[40 + shard], "b2": lists[700 + shard]})
        # random stratum
        from hypothesis import given, settings, strategies as st, seed as hseed, HealthCheck, Phase
        pair = st.tuples(st.integers(-8, 40), st.integers(-8, 40))
        lst = st.lists(pair, max_size=6)
        nex = 20000 if tier == "thorough" else 600

        @hseed(seed)
        @settings(max_examples=nex, database=None, deadline=None, derandomize=False,
                  suppress_health_check=list(HealthCheck), phases=[Phase.generate])
        @given(lst, lst)
        def t(b1, b2):
            r = judge(b1, b2)
            res.case(nontrivial_key=(b1, b2) if nontrivial(b1, b2) else None,
                     sample={"b1": b1, "b2": b2} if len(b1) > 2 else None)
            res.counters["random_pairs"] += 1
            if r is not None:
                res.fail(r[0], r[1], {"b1": b1, "b2": b2})
        t()
        return res

    def replay(self, case):
        r = judge(case["b1"], case["b2"])
        if r is None:
            return None
        return Failure(r[0], r[1], case)

    def shrink(self, failure, tier):
        b1 = [tuple(x) for x in failure.case["b1"]]
        b2 = [tuple(x) for x in failure.case["b2"]]
        changed = True
        while changed:
            changed = False
            for which in (0, 1):
                cur = (b1, b2)[which]
                for k in range(len(cur)):
                    cand = cur[:k] + cur[k + 1:]
                    nb = (cand, b2) if which == 0 else (b1, cand)
                    r = judge(*nb)
                    if r is not None and r[0] == failure.bucket:
                        b1, b2 = nb
                        changed = True
                        break
                if changed:
                    break
        r = judge(b1, b2)
        return Failure(r[0], r[1], {"b1": b1, "b2": b2})


CHECK = C26()
