"""C45 — imported functions get distinct, stable stub addresses.

Model-based histories over miasm.jitter.loader.utils.libimp (and its subclasses libimp_elf / libimp_pe, which
inherit lib_get_add_base / lib_get_add_func unchanged): libraries are created by name (case variants, with and
without the default ".dll" extension), functions are registered by name or ordinal, singly or in bulk (hundreds in
one library), and looked up again.

Oracle: a Python dict (library key, function) -> address filled with what libimp returned the first time.
Invariants: same (library, function) -> same address; a new (library, function) never receives an address already
given to another pair; at the end every address maps back through fad2info / fad2cname to the pair it was given to
and lib_imp2ad / cname2addr map forward to it.
"""
import logging

from vlib.runner import Check, ShardResult, Failure
from vlib import hyp

LIBS = ["kernel32.dll", "user32.dll", "ntdll.dll", "a.dll", "a_b.dll", "libc.so.6", "mfc42.dll", "msvcrt.dll"]
FPOOL = ["GetProcAddress", "b_c", "c", "malloc", "free", "_initterm", "1", "Sleep"]
CLASSES = ["libimp", "libimp_elf", "libimp_pe"]


def lib_variant(k, variant):
    name = LIBS[k % len(LIBS)]
    v = variant % 4
    if v == 1:
        return name.upper()
    if v == 2 and name.endswith(".dll"):
        return name[:-4]            # libimp appends ".dll" to a module name without extension
    if v == 3:
        return name.capitalize()
    return name


def lib_key(name):
    """identity of a library: DLL names are case-insensitive, '.dll' is the default extension"""
    name = name.lower()
    if "." not in name:
        name += ".dll"
    return name


def func_of(kind, n):
    kind %= 3
    if kind == 0:
        return "f%d" % n
    if kind == 1:
        return n                  # ordinal
    return FPOOL[n % len(FPOOL)]


def conv_name(key, func):
    """naming convention of the Python stubs: <library name without extension>_<function>"""
    dn = key.split(".")[0]
    if isinstance(func, int):
        return (dn, func)
    return "%s_%s" % (dn, func)


class Sim(object):
    def __init__(self, cls="libimp", base=None):
        from miasm.jitter.loader import utils, elf, pe
        logging.getLogger("loader_common").setLevel(logging.ERROR)
        klass = {"libimp": utils.libimp, "libimp_elf": elf.libimp_elf, "libimp_pe": pe.libimp_pe}[cls]
        self.imp = klass() if base is None else klass(base)
        self.libs = {}            # key -> base address returned
        self.liborder = []
        self.pairs = {}           # (key, func) -> address
        self.order = []           # registration order of pairs
        self.by_addr = {}         # address -> (key, func)
        self.per_lib = {}         # key -> number of functions
        self.max_per_lib = 0

    # -- helpers
    def _lib(self, name):
        key = lib_key(name)
        ad = self.imp.lib_get_add_base(name)
        if key in self.libs:
            if ad != self.libs[key]:
                raise hyp.CheckFailure("lib:base-changed", "lib_get_add_base(%r) = 0x%x, was 0x%x" % (name, ad, self.libs[key]))
        else:
            for k2, a2 in self.libs.items():
                if a2 == ad:
                    raise hyp.CheckFailure("lib:base-shared", "lib_get_add_base(%r) = 0x%x, the base of %r" % (name, ad, k2))
            self.libs[key] = ad
            self.liborder.append(key)
            self.per_lib[key] = 0
        return key

    def _sel_lib(self, sel):
        if not self.liborder:
            self._lib(LIBS[0])
        return self.liborder[sel % len(self.liborder)]

    def _func(self, key, func, dst=None):
        libad = self.libs[key]
        if dst is None:
            ad = self.imp.lib_get_add_func(libad, func)
        else:
            ad = self.imp.lib_get_add_func(libad, func, dst)
        pair = (key, func)
        if pair in self.pairs:
            if ad != self.pairs[pair]:
                raise hyp.CheckFailure("func:address-changed", "lib_get_add_func(%s, %r) = 0x%x, was 0x%x"
                                       % (key, func, ad, self.pairs[pair]))
            return ad
        idx = self.per_lib[key]
        other = self.by_addr.get(ad)
        if other is not None:
            oidx = self.order.index(other)
            okey = other[0]
            oi = [p for p in self.order if p[0] == okey].index(other)
            over = "import-index>=256" if max(idx, oi) >= 256 else "import-index<256"
            raise hyp.CheckFailure("func:address-shared:" + over,
                                   "lib_get_add_func(%s, %r) (import #%d of its library, base 0x%x) = 0x%x, already the "
                                   "stub of (%s, %r) (import #%d of its library, base 0x%x)"
                                   % (key, func, idx, libad, ad, okey, other[1], oi, self.libs[okey]))
        self.pairs[pair] = ad
        self.by_addr[ad] = pair
        self.order.append(pair)
        self.per_lib[key] = idx + 1
        self.max_per_lib = max(self.max_per_lib, idx + 1)
        # immediate reverse lookup
        self._reverse(ad, pair, "after-registration")
        return ad

    def _reverse(self, ad, pair, when):
        key, func = pair
        info = self.imp.fad2info.get(ad)
        if info != (self.libs[key], func):
            raise hyp.CheckFailure("reverse:fad2info:" + when, "fad2info[0x%x] = %r, assigned to (%s base 0x%x, %r)"
                                   % (ad, info, key, self.libs[key], func))
        cn = self.imp.fad2cname.get(ad)
        if cn != conv_name(key, func):
            raise hyp.CheckFailure("reverse:fad2cname:" + when, "fad2cname[0x%x] = %r, assigned to (%s, %r)" % (ad, cn, key, func))

    # -- ops
    def step(self, op):
        name = op[0]
        if name == "lib":
            self._lib(lib_variant(op[1], op[2]))
        elif name == "func":
            key = self._sel_lib(op[1])
            self._func(key, func_of(op[3], op[2]), op[4] if len(op) > 4 else None)
        elif name == "bulk":
            key = self._sel_lib(op[1])
            for n in range(op[2], op[2] + op[3]):
                self._func(key, func_of(op[4], n))
        elif name == "again":
            if self.order:
                key, func = self.order[op[1] % len(self.order)]
                self._func(key, func)
        else:
            raise ValueError(op)

    def finish(self):
        cnames = {}
        for pair in self.order:
            cnames.setdefault(repr(conv_name(*pair)), []).append(pair)
        for pair in self.order:
            key, func = pair
            ad = self.pairs[pair]
            self._reverse(ad, pair, "at-end")
            fwd = self.imp.lib_imp2ad[self.libs[key]].get(func)
            if fwd != ad:
                raise hyp.CheckFailure("forward:lib_imp2ad", "lib_imp2ad[%s][%r] = %r, assigned 0x%x" % (key, func, fwd, ad))
            cn = conv_name(key, func)
            if len(cnames[repr(cn)]) == 1:      # the convention is ambiguous for e.g. a.dll!b_c / a_b.dll!c
                got = self.imp.cname2addr.get(cn)
                if got != ad:
                    raise hyp.CheckFailure("forward:cname2addr", "cname2addr[%r] = %r, assigned 0x%x" % (cn, got, ad))
        # a second query of every pair still gives the same address
        for pair in self.order:
            self._func(pair[0], pair[1])


def op_strategy():
    from hypothesis import strategies as st
    small = st.integers(0, 7)
    lib = st.tuples(st.just("lib"), small, st.integers(0, 3))
    func = st.tuples(st.just("func"), small, st.integers(0, 600), st.integers(0, 2),
                     st.one_of(st.none(), st.integers(0x401000, 0x402000)))
    bulk = st.tuples(st.just("bulk"), small, st.sampled_from([0, 0, 1, 100, 250]),
                     st.sampled_from([3, 20, 100, 254, 255, 256, 257, 300, 400]), st.integers(0, 1))
    again = st.tuples(st.just("again"), st.integers(0, 1000))
    return st.one_of(lib, lib, func, func, func, bulk, bulk, again)


def history_strategy():
    from hypothesis import strategies as st
    return st.tuples(st.sampled_from(CLASSES), st.sampled_from([None, None, 0x7fff0000, 0x10000]),
                     st.lists(op_strategy(), min_size=1, max_size=14))


def run_case(case):
    cls, base, ops = case["cls"], case["base"], case["ops"]
    sim = [None]

    def factory():
        sim[0] = Sim(cls, base)
        return sim[0]
    f = hyp.run_history(factory, ops)
    return f, sim[0]


class C45(Check):
    pid = "C45"
    rule = ("Hypothesis histories (<=14 ops) on libimp / libimp_elf / libimp_pe with default or custom lib_base_ad: "
            "create library (8 names x case / missing-.dll variants), register one function (name or ordinal, optional "
            "dst_ad), register 3..400 functions in bulk, re-query an earlier pair; after every registration and at the "
            "end: same pair -> same address, new pair -> unused address, fad2info/fad2cname map back, "
            "lib_imp2ad/cname2addr map forward (cname2addr only where the naming convention is unambiguous). "
            "Non-trivial: >= 2 libraries with functions, or a library with > 255 imports; distinct by history.")
    assumptions = ["library identity is the lower-cased name with '.dll' appended when it has no extension "
                   "(what lib_get_add_base documents by its warning)",
                   "canonical stub name = <library name up to the first dot>_<function> or (name, ordinal)",
                   "only the generic registration API is driven; libimp_pe.add_export_lib (real DLL images) is C42/C44 territory"]
    level_text = "randomized model-based testing of the import-stub allocator, including libraries with hundreds of imports"
    technique = "model-based property testing (Hypothesis operation histories, dict oracle)"

    def nshards(self, tier):
        return 16

    def run_shard(self, tier, seed, shard, nshards):
        res = ShardResult()
        n = 5000 if tier == "thorough" else 500
        cnt = [0]

        def one(h):
            cnt[0] += 1
            case = {"cls": h[0], "base": h[1], "ops": [list(o) for o in h[2]]}
            f, sim = run_case(case)
            libs_with_funcs = sum(1 for v in sim.per_lib.values() if v)
            nt = libs_with_funcs >= 2 or sim.max_per_lib > 255
            res.case(nontrivial_key=repr(case) if nt else None, sample=case if nt and cnt[0] % 40 == 1 else None)
            res.counters["class:" + case["cls"]] += 1
            res.counters["history_steps"] += len(case["ops"])
            res.counters["registered_functions"] += len(sim.order)
            if sim.max_per_lib > 255:
                res.counters["histories with a library of > 255 imports"] += 1
            if sim.max_per_lib > 255 and libs_with_funcs >= 2:
                res.counters["histories with > 255 imports and >= 2 libraries"] += 1
            if f is not None:
                res.fail(f.bucket, f.detail, case)
        hyp.survey(history_strategy(), n, seed, one)
        return res

    def replay(self, case):
        f, _ = run_case(case)
        if f is None:
            return None
        return Failure(f.bucket, f.detail, case)

    def shrink(self, failure, tier):
        case = failure.case

        def still(ops):
            f, _ = run_case(dict(case, ops=ops))
            return f is not None and f.bucket == failure.bucket
        ops = hyp.ddmin_list(case["ops"], still, budget=150)
        # shrink bulk counts
        changed = True
        while changed:
            changed = False
            for i, op in enumerate(ops):
                if op[0] == "bulk":
                    for c in (op[3] // 2, op[3] - 1):
                        if 0 < c < op[3]:
                            cand = ops[:i] + [[op[0], op[1], op[2], c, op[4]]] + ops[i + 1:]
                            if still(cand):
                                ops = cand
                                changed = True
                                break
                    if changed:
                        break
        small = dict(case, ops=ops)
        f, _ = run_case(small)
        if f is not None and f.bucket == failure.bucket:
            return Failure(f.bucket, f.detail, small)
        return failure


CHECK = C45()
