"""C17 — decoded instruction lengths agree with a reference disassembler.

Reference: LLVM 14's MC disassembler.  Samples miasm decodes are written into one assembly file per batch, one
labelled slot per sample (x86/MIPS/PPC: `.byte` runs, ARM/AArch64: `.inst`, Thumb: `.inst.n` halfwords), assembled with
`llvm-mc -filetype=obj` and listed with `llvm-objdump -d -z`: the disassembler restarts at every symbol, so the first
listed instruction of a slot is the reference's opinion on the sample.  Only validity and length are compared.
x86: GNU objdump lists the same object; a sample on which the two references disagree with each other is dropped.
Fixed-width ISAs: the reference sees the logical instruction word; miasm sees its memory image in the mode's
byte order (so both endiannesses of miasm are judged against the same reference answer).
"""
import os
import re
import shutil
import subprocess
import tempfile

from vlib.runner import Check, ShardResult, Failure
from vlib import archlab
from checks import c15

PARTS_Q = {"x86_32": 2, "x86_64": 2, "x86_16": 2, "arml": 2, "armb": 1, "armtl": 4, "armtb": 1, "aarch64l": 4,
           "aarch64b": 1, "mips32l": 1, "mips32b": 2, "ppc32b": 3}
PARTS_T = {"x86_32": 12, "x86_64": 14, "x86_16": 12, "arml": 8, "armb": 8, "armtl": 6, "armtb": 6, "aarch64l": 10,
           "aarch64b": 10, "mips32l": 6, "mips32b": 6, "ppc32b": 3}
BATCH = 20000

_ARM_ATTR = ("+v8.2a,+vfp4,+neon,+crc,+crypto,+dsp,+mp,+virtualization,+trustzone,+hwdiv,+hwdiv-arm,+fp16,"
             "+fullfp16,+dotprod,+ras")
_A64_ATTR = "+v8.5a,+fp-armv8,+neon,+crc,+crypto,+lse,+fullfp16,+rcpc,+dotprod,+ras,+rdm,+sve"
# family -> list of reference profiles (llvm-mc triple, llvm-objdump extra args, header lines of the .s file).
# A sample is valid for the reference when ANY profile decodes it (ISA revisions removed / added encodings).
_ARM7_ATTR = "+vfp4,+neon,+mp,+virtualization,+trustzone,+hwdiv,+hwdiv-arm,+fp16,+dsp"
REF = {
    "x86:32": [("i386", [], [])],
    "x86:64": [("x86_64", [], [])],
    "x86:16": [("i386-unknown-unknown-code16", ["--triple=i386-unknown-unknown-code16"], [".code16"])],
    "arm": [("armv8a", ["--triple=armv8a", "--mattr=" + _ARM_ATTR], [".arm"]),
            ("armv7a", ["--triple=armv7a", "--mattr=" + _ARM7_ATTR], [".arm"]),
            ("armv5te", ["--triple=armv5te", "--mattr=+vfp2"], [".arm"])],
    "armt": [("thumbv8a", ["--triple=thumbv8a", "--mattr=" + _ARM_ATTR], [".thumb"]),
             ("thumbv7a", ["--triple=thumbv7a", "--mattr=" + _ARM7_ATTR], [".thumb"])],
    "aarch64": [("aarch64", ["--mattr=" + _A64_ATTR], [])],
    "mips32": [("mips", ["--mattr=+mips32r2,+fp64,+dsp,+dspr2"], []),
               ("mips", ["--mattr=+mips32r2"], []),
               ("mips", ["--mattr=+mips32r6"], [])],
    "ppc32": [("powerpc", ["--mcpu=future"], []), ("powerpc", ["--mcpu=e500"], []), ("powerpc", ["--mcpu=a2"], [])],
}
# Instructions LLVM 14 has no table entry for although they are architectural: judged samples exclude them.
REF_GAPS = {
    "ppc32": re.compile(r"^(ECIWX|ECOWX|LSWI|LSWX|STSWI|STSWX|MCRXR)$"),      # POWER/PowerPC classic only
    "mips32": re.compile(r"\.PS$"),                                           # paired-single formats
}
GNU_OPT = {"x86:32": ["-M", "i386"], "x86:64": ["-M", "x86-64"], "x86:16": ["-M", "i8086"]}

_HDR = re.compile(r"^[0-9a-f]+ <s(\d+)>:$")
_INS = re.compile(r"^\s*[0-9a-f]+:\s+((?:[0-9a-f]{2} )*[0-9a-f]{2})\s*(.*)$")


def refkey(arch):
    return "x86:%d" % arch.mode if arch.family == "x86" else arch.family


def slot_bytes(arch, data):
    """the bytes the reference sees for a sample: logical order, padded to the slot size"""
    logical = archlab.to_logical(arch, data)
    n = max(arch.slot, len(logical))
    if arch.family == "x86":
        n = 16 if len(logical) <= 16 else len(logical)
    return logical + b"\x00" * (n - len(logical))


def emit(arch, slots, header):
    lines = [".text"] + header
    for i, sb in enumerate(slots):
        if arch.family in ("arm", "aarch64"):
            body = "\n".join(" .inst 0x%s" % sb[j:j + 4].hex() for j in range(0, len(sb) - len(sb) % 4, 4))
        elif arch.family == "armt":
            body = "\n".join(" .inst.n 0x%s" % sb[j:j + 2].hex() for j in range(0, len(sb) - len(sb) % 2, 2))
        else:
            body = " .byte " + ",".join("0x%02x" % b for b in sb)
        lines.append("s%d:\n%s" % (i, body))
    return "\n".join(lines) + "\n"


def parse_listing(text, nslots, bad_words):
    """-> {slot: (valid, length, text)} from the first instruction line after each <sN>: header"""
    out = {}
    cur = None
    for line in text.splitlines():
        m = _HDR.match(line)
        if m:
            cur = int(m.group(1))
            continue
        if cur is None or not line.strip():
            continue
        m = _INS.match(line)
        if m:
            nbytes = len(m.group(1).split())
            txt = m.group(2).strip()
            valid = not any(w in txt for w in bad_words) and bool(txt)
            out[cur] = (valid, nbytes, txt)
            cur = None
    return out


class RefError(Exception):
    pass


def _run(cmd):
    p = subprocess.run(cmd, stdout=subprocess.PIPE, stderr=subprocess.PIPE)
    if p.returncode != 0:
        raise RefError("%s failed: %s" % (cmd[0], p.stderr.decode("utf-8", "replace")[:500]))
    return p.stdout.decode("utf-8", "replace")


def run_reference(arch, slots, workdir, want_gnu=True):
    """-> (llvm {slot: (valid, len, text)}, gnu {...} or None).  Profiles after the first are only asked about the
    slots every earlier profile rejected."""
    key = refkey(arch)
    src = os.path.join(workdir, "b.s")
    obj = os.path.join(workdir, "b.o")
    llvm = {}
    gnu = None
    pending = list(range(len(slots)))
    for pi, (triple, od_args, hdr) in enumerate(REF[key]):
        if not pending:
            break
        with open(src, "w") as f:
            f.write(emit(arch, [slots[i] for i in pending], hdr))
        _run(["llvm-mc", "-triple=" + triple, "-filetype=obj", "-o", obj, src])
        part = parse_listing(_run(["llvm-objdump", "-d", "-z"] + od_args + [obj]), len(pending), ("<unknown>",))
        if len(part) != len(pending):
            raise RefError("llvm-objdump listed %d of %d slots" % (len(part), len(pending)))
        if pi == 0 and want_gnu and key in GNU_OPT:
            gnu = parse_listing(_run(["objdump", "-d", "-z", "--insn-width=16"] + GNU_OPT[key] + [obj]),
                                len(pending), ("(bad)",))
        still = []
        for j, i in enumerate(pending):
            v = part[j]
            if v[0] or i not in llvm:
                llvm[i] = v
            if not v[0]:
                still.append(i)
        pending = still
    return llvm, gnu


def compare(arch, batch, llvm, gnu, res=None):
    """batch: [(data, miasm length, mnemonic, text)] -> [(index, kind, detail)]"""
    fails = []
    for i, (data, ml, name, text) in enumerate(batch):
        if i not in llvm:
            raise RefError("slot %d missing from the llvm-objdump listing" % i)
        lv, ll, lt = llvm[i]
        if gnu is not None:
            if i not in gnu:
                raise RefError("slot %d missing from the objdump listing" % i)
            gv, gl, gt = gnu[i]
            if (lv, ll if lv else 0) != (gv, gl if gv else 0):
                if res is not None:
                    res.dropped["x86: LLVM and GNU references disagree with each other"] += 1
                    res.counters["refs-disagree:%s:%s" % (arch.name, name)] += 1
                continue
        gap = REF_GAPS.get(arch.family)
        if gap is not None and gap.search(name):
            if res is not None:
                res.dropped["mnemonic absent from the LLVM 14 tables (%s %s)" % (arch.family, gap.pattern)] += 1
            continue
        if res is not None:
            res.counters["compared:%s" % arch.name] += 1
        head = "%s %s: miasm decodes %r (length %d)" % (arch.name, data[:ml].hex(), text.strip(), ml)
        if not lv:
            fails.append((i, "reference-rejects", "%s; the reference disassembler reports no valid instruction (%s)"
                          % (head, lt)))
        elif ll != ml:
            fails.append((i, "length-differs(%+d)" % (ml - ll), "%s; the reference decodes %r with length %d"
                          % (head, lt, ll)))
    return fails


class C17(c15.RoundTripCheck):
    pid = "C17"
    parts_q = PARTS_Q
    parts_t = PARTS_T
    stride_q = {"armb": 4, "armtb": 4, "aarch64b": 4, "mips32l": 4}
    nrand_q = 400
    nrand_t = 200000
    arch_names = [n for n in archlab.ARCH_NAMES if archlab.ARCHS[n].llvm]
    rule = ("byte strata of vlib.archlab (curated + opcode enumeration, seed-independent; Hypothesis random bytes) for "
            "x86 16/32/64, arm l/b, thumb l/b, aarch64 l/b, mips32 l/b, ppc32. Every sample miasm decodes is given "
            "to LLVM 14 (llvm-mc + llvm-objdump, one labelled slot per sample, 20000 slots per invocation); the "
            "first instruction listed in the slot must be valid and have miasm's length. x86 samples on which GNU "
            "objdump and LLVM disagree with each other are dropped. Non-trivial: decoded instruction longer than "
            "its opcode unit or carrying operands; distinct by (architecture, mode, instruction bytes).")
    assumptions = ["LLVM 14 MC tables (ARMv8.2-A + VFP/NEON/crypto, AArch64 v8.5 + SVE, mips32r2, generic PowerPC, "
                   "generic x86) are the reference; GNU binutils 2.40 cross-checks x86",
                   "fixed-width ISAs: the reference is asked about the logical instruction word, independent of the "
                   "byte order miasm reads it in",
                   "only validity and length are compared, never the instruction text",
                   "architectural instructions LLVM 14 lacks are not judged: PowerPC ECIWX/ECOWX/LSWI/LSWX/STSWI/"
                   "STSWX/MCRXR, MIPS paired-single (.PS) formats"]
    level_text = ("differential testing of decoder validity/length against LLVM's disassembler over an opcode-space "
                  "enumeration plus curated and random bytes")
    technique = "differential testing against an independent disassembler"

    def begin(self, res, arch, tier):
        self._batch = []
        self._work = tempfile.mkdtemp(prefix="verif-c17-", dir="/var/tmp")

    def flush(self, res, arch):
        batch = self._batch
        self._batch = []
        if not batch:
            return
        slots = [slot_bytes(arch, d) for d, _l, _n, _t in batch]
        llvm, gnu = run_reference(arch, slots, self._work)
        for i, kind, detail in compare(arch, batch, llvm, gnu, res):
            data, ml, name, _t = batch[i]
            res.fail(archlab.bucket(arch, name, kind), detail, {"arch": arch.name, "hex": data.hex()})

    def one(self, res, arch, stratum, data, state):
        st, instr = archlab.decode(arch, data)
        if st == "undecodable":
            res.dropped["bytes miasm does not decode (outside the quantifier)"] += 1
            return
        if st != "ok":
            res.dropped["decoder raised %s (no instruction obtained)" % type(instr).__name__] += 1
            return
        key = bytes(data[:instr.l])
        if key in state["seen"]:
            return
        state["seen"].add(key)
        try:
            text = str(instr)
        except Exception:
            text = instr.name
        nt = (arch.name, key.hex()) if (instr.args or instr.l > arch.unit) else None
        sample = None
        if nt and not res.samples and len(state["seen"]) > 30:
            sample = {"arch": arch.name, "hex": key.hex(), "miasm_length": instr.l, "text": text}
        res.case(nontrivial_key=nt, sample=sample)
        res.counters["decoded:%s:%s" % (arch.name, stratum)] += 1
        self._batch.append((data, instr.l, instr.name, text))
        if len(self._batch) >= BATCH:
            self.flush(res, arch)

    def end(self, res, arch, tier):
        try:
            self.flush(res, arch)
        finally:
            shutil.rmtree(self._work, ignore_errors=True)

    def run_shard(self, tier, seed, shard, nshards):
        try:
            return c15.RoundTripCheck.run_shard(self, tier, seed, shard, nshards)
        finally:
            w = getattr(self, "_work", None)
            if w:
                shutil.rmtree(w, ignore_errors=True)

    def replay(self, case):
        arch = archlab.ARCHS[case["arch"]]
        archlab.mn_of(arch)
        archlab.quiet_miasm_logs()
        data = bytes.fromhex(case["hex"])
        st, instr = archlab.decode(arch, data)
        if st != "ok":
            return None
        work = tempfile.mkdtemp(prefix="verif-c17-", dir="/var/tmp")
        try:
            batch = [(data, instr.l, instr.name, str(instr))]
            llvm, gnu = run_reference(arch, [slot_bytes(arch, data)], work)
            fails = compare(arch, batch, llvm, gnu)
        finally:
            shutil.rmtree(work, ignore_errors=True)
        if not fails:
            return None
        _i, kind, detail = fails[0]
        return Failure(archlab.bucket(arch, instr.name, kind), detail, case)

    def shrink(self, failure, tier):
        arch = archlab.ARCHS[failure.case["arch"]]
        data = bytes.fromhex(failure.case["hex"])
        st, instr = archlab.decode(arch, data)
        if st != "ok":
            return failure
        r = self.replay(dict(failure.case, hex=data[:instr.l].hex()))
        if r is not None and r.bucket == failure.bucket:
            return r
        return failure


CHECK = C17()
