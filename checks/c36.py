"""C36 — IR graph simplification preserves observable behaviour.

Generated: IR graphs of a complete function (vlib.irgraphgen.graph over the x86_32 model-call
lifter): diamonds, multi-way branches, counted / while / irreducible loops, loop through the head,
early exits, swap and lost-copy loops, modelled sub-calls (call_func_ret / call_func_stack as
LifterModelCall.call_effects emits them), memory traffic on stack / register / absolute cells,
parallel-assignment hazards; exits: x86 ret, jump to a register, tail jump to a location / an integer
address outside the graph.  One shard in eight takes functions of the compiled-C corpus instead
(vlib.ccorpus: clang --target=i386 at -O0/-O1/-O2/-Os, lifted with the x86_32 model-call lifter).

Hazard-directed stratum (vlib.iraliasgen, 24 cases per shard next to the 30 structured graphs): load / possibly
aliasing store / use programs over cells @w[base + o] of one base, o in {0, 1, 2, 3, 4, 8, -1, -2, -3, -4} (negative
ones as 32-bit wrapping constants), w in 8/16/32, the two cells drawn by relation (equal, contained, partial overlap,
overlap through the wrap, adjacent, far; one case in five with a different base as control), orders load-store-use,
store-load-use, load-store-load-use, ..., in straight-line code, across a diamond / if-then and through a counted loop,
with base adjustments (push / pop like), parallel load+store AssignBlocks and free AssignBlocks in between.

Both pipelines run on a copy: IRCFGSimplifierCommon(lifter).simplify(copy, head) and
IRCFGSimplifierSSA(lifter).simplify(copy, head) (fresh lifter each: the SSA pipeline records its
variable map in lifter.ssa_var).

Judged with the concrete interpreter on 8 initial states, original vs simplified graph:
  * same ordered events: memory writes (address, size, value; a write storing the value the cells
    already hold is not an event) and call operator applications (operator, argument values: callee,
    stack pointer); events of one AssignBlock are simultaneous (compared as a sorted group);
  * same exit destination;
  * same value of the return register EAX and of the stack pointer ESP at the exit, each read in the
    simplified graph through the variable that stands for it: the most recently assigned identifier
    that the pipeline's own map (simplifier.all_ssa_vars / lifter.ssa_var) sends to the register --
    this is the rule DeadRemoval.find_definitions_from_worklist uses for the output registers -- or
    the register itself when no such identifier was assigned (plain pipeline: the register itself).

Buckets name pipeline, root cause found by substitution, and symptom:
  via-liveness-seed   disappears when the SSA liveness is computed from every block (K-C38-1)
  via-out-of-ssa      disappears when UnSSADiGraph is replaced by a naive, coalescing-free translation
                      (one fresh variable per Phi, copies at the end of the parents)
  via-simplifier      disappears with a pass-free ExpressionSimplifier
  mismatch            none of these
A simplified graph that still contains a Phi is reported as <pipeline>:phi-left-in-result without execution.
"""
from vlib.runner import Check, ShardResult, Failure
from vlib import hyp
from vlib import irgraphgen as gg
from vlib import iraliasgen as ag
from vlib.timeout import call_with_limit, TimeLimit

_state = {}
LIMIT_S = 60
OUT = [("EAX", 32), ("ESP", 32)]


def voc():
    if "voc" not in _state:
        _state["voc"] = gg.Vocab(nvars=4, flags=2, small=True, mem=True, calls=True, rich=True, ncounters=3,
                                 observe=3)
    return _state["voc"]


def where_of(ex):
    import traceback
    for fr in reversed(traceback.extract_tb(ex.__traceback__)):
        if "/miasm/" in fr.filename:
            return "%s:%s" % (fr.filename.split("/miasm/")[-1], fr.name)
    return "?"


# ---------------------------------------------------------------------------------- diagnosis substitutes

def _compute_liveness_all(lv):
    """compute_liveness with the worklist seeded with every block"""
    todo = set(lv.blocks)
    while todo:
        node = todo.pop()
        cur = lv.blocks.get(node, None)
        if cur is None:
            continue
        if not lv.back_propagate_compute(cur):
            continue
        for pred in lv.predecessors(node):
            lv.back_propagate_to_parent(todo, node, pred)


def _naive_unssa(ssa):
    """coalescing-free out-of-SSA: dst = Phi(a1..an)  ->  tmp = ai at the end of the parent(s) carrying ai,
    dst = tmp in place of the Phi"""
    import miasm.expression.expression as m
    from miasm.ir.ir import IRBlock, AssignBlock
    from miasm.analysis.ssa import get_phi_sources_parent_block, irblock_has_phi
    cfg = ssa.graph
    copies = {}
    n = 0
    for lk in list(cfg.blocks):
        blk = cfg.blocks[lk]
        if not irblock_has_phi(blk):
            continue
        line0 = {}
        for dst, src in blk[0].items():
            if not src.is_op('Phi'):
                line0[dst] = src
                continue
            tmp = m.ExprId("phitmp%d" % n, dst.size)
            n += 1
            line0[dst] = tmp
            v2p = get_phi_sources_parent_block(cfg, lk, src.args)
            for a in src.args:
                for p in v2p[a]:
                    copies.setdefault(p, {})[tmp] = a
        cfg.blocks[lk] = IRBlock(cfg.loc_db, lk, [AssignBlock(line0, blk[0].instr)] + list(blk)[1:])
    for p, cp in copies.items():
        blk = cfg.blocks[p]
        cfg.blocks[p] = IRBlock(cfg.loc_db, p, list(blk) + [AssignBlock(cp, blk[-1].instr)])
    return cfg


def make_simplifier(kind, lifter, subst=None):
    from miasm.analysis.simplifier import IRCFGSimplifierCommon, IRCFGSimplifierSSA
    from miasm.analysis.data_flow import DiGraphLivenessSSA
    from miasm.analysis.outofssa import UnSSADiGraph
    kw = {}
    if subst == "nosimp":
        from miasm.expression.simplifications import ExpressionSimplifier
        kw["expr_simp"] = ExpressionSimplifier()
    if kind == "common":
        return IRCFGSimplifierCommon(lifter, **kw)

    class Live(IRCFGSimplifierSSA):
        def ssa_to_unssa(self, ssa, head):
            lv = DiGraphLivenessSSA(ssa.graph)
            lv.init_var_info(self.lifter)
            _compute_liveness_all(lv)
            UnSSADiGraph(ssa, head, lv)
            return ssa.graph

    class Naive(IRCFGSimplifierSSA):
        def ssa_to_unssa(self, ssa, head):
            return _naive_unssa(ssa)
    cls = {"live-all": Live, "naive-unssa": Naive}.get(subst, IRCFGSimplifierSSA)
    return cls(lifter, **kw)


def build_case(case):
    """case: {"graph": raw graph} | {"lifted": compiled function} -> (lifter, ircfg, head)"""
    if "lifted" in case:
        return gg.lift_function(case["lifted"])
    lifter, ircfg, keys = gg.build(case["graph"])
    return lifter, ircfg, keys[case["graph"]["head"]]


def simplify(case, kind, subst=None):
    """-> (lifter, original ircfg, head, simplified ircfg | None, simplifier, exception | None)"""
    lifter, ircfg, head = build_case(case)
    work = gg.copy_ircfg(ircfg)
    simp = make_simplifier(kind, lifter, subst)
    try:
        out = call_with_limit(LIMIT_S, simp.simplify, work, head)
    except TimeLimit:
        raise
    except RecursionError as ex:
        return lifter, ircfg, head, None, simp, ex
    except Exception as ex:
        return lifter, ircfg, head, None, simp, ex
    if kind == "ssa":
        work = out
    return lifter, ircfg, head, work, simp, None


def nassign(cfg):
    return sum(len(ab) for blk in cfg.blocks.values() for ab in blk)


def compare(ircfg, work, head, simp, kind, stats=None, lifted=False):
    states = gg.lifted_states(simp.lifter) if lifted else None
    if kind == "ssa":
        var2reg = dict(simp.all_ssa_vars)

        def base_map(n, sz):
            import miasm.expression.expression as m
            e = var2reg.get(m.ExprId(n, sz))
            if e is None:
                return (n, sz)
            return (e.name, e.size)
        return gg.compare_runs(ircfg, work, head, states=states, mode="sequence", out_regs=OUT, base_map=base_map,
                               stats=stats, word="simplified")
    return gg.compare_runs(ircfg, work, head, states=states, mode="sequence", regs=OUT, stats=stats, word="simplified")


def judge(case, stats=None, info=None):
    fails = []
    lifted = "lifted" in case
    for kind in ("common", "ssa"):
        try:
            lifter, ircfg, head, work, simp, ex = simplify(case, kind)
        except TimeLimit:
            if stats is not None:
                stats["inconclusive:time-limit:" + kind] += 1
            continue
        if ex is not None:
            fails.append(("%s:exception:%s@%s" % (kind, type(ex).__name__, where_of(ex)),
                          "%s pipeline raised %r" % (kind, ex)))
            continue
        removed = nassign(ircfg) - nassign(work)
        if info is not None:
            info[kind + ":removed"] = removed
        if stats is not None:
            stats[kind + ":assignments-removed"] += max(removed, 0)
            stats[kind + ":blocks-removed"] += max(len(ircfg.blocks) - len(work.blocks), 0)
        left = [(blk.loc_key, d, s_) for blk in work.blocks.values() for ab in blk for d, s_ in ab.items()
                if s_.is_op("Phi")]
        if left:
            # root cause visible in the result itself: not an executable graph
            fails.append(("%s:phi-left-in-result" % kind, "the simplified graph still contains %s = %s in %s (first "
                          "AssignBlock of the block: %s)"
                          % (left[0][1], left[0][2], left[0][0],
                             " ; ".join("%s = %s" % kv for kv in work.blocks[left[0][0]][0].items()))))
            continue
        r = compare(ircfg, work, head, simp, kind, stats, lifted)
        if r is None:
            continue
        symptom = r[0].split(":")[0]
        cause = "mismatch"
        for subst, name in ((("live-all", "via-liveness-seed"), ("naive-unssa", "via-out-of-ssa")) if kind == "ssa"
                            else ()) + (("nosimp", "via-simplifier"),):
            try:
                _, ircfg2, head2, work2, simp2, ex2 = simplify(case, kind, subst)
            except TimeLimit:
                continue
            if ex2 is None and compare(ircfg2, work2, head2, simp2, kind, None, lifted) is None:
                cause = name
                break
        fails.append(("%s:%s:%s" % (kind, cause, symptom), r[1]))
    return fails


class C36(Check):
    pid = "C36"
    rule = ("Hypothesis: structured IR graphs of a complete function (vlib.irgraphgen: diamond / multi-way / counted, "
            "while and irreducible loops / loop through the head / early exit / swap and lost-copy loops / modelled "
            "calls / memory traffic / irgen's parallel-assignment hazards; exits ret, register, tail jump; <= 12 blocks; "
            "x86_32 model-call lifter), plus a hazard-directed stratum (vlib.iraliasgen, seeded PRNG, 24 of 54 cases per "
            "shard): load / possibly-aliasing store / use over same-base cells @w[base+o], o in 0..4, 8, -1..-4 as wrapping "
            "constants, w 8/16/32, cell pairs drawn by relation (equal / contained / partial / through the wrap / adjacent / "
            "far; different-base controls), both orders, straight-line / diamond / loop, plus, in one shard of eight, x86_32 functions compiled from generated C by clang at four "
            "optimisation levels and lifted. IRCFGSimplifierCommon and IRCFGSimplifierSSA on a copy; original and simplified "
            "graph run on 8 initial states: ordered memory-write and call events, exit destination, EAX and ESP at the "
            "exit (SSA pipeline: read through the last assigned identifier its own map sends to the register). "
            "Non-trivial: the graph has a loop or a diamond/branch (hazard-directed stratum: any layout) and the SSA "
            "pipeline removed at least one assignment; distinct by serialised graph.")
    assumptions = ["operators without evaluation rule (call_func_*) are pure keyed hashes of their argument values",
                   "a memory write storing the value the cells already hold is not an observable event",
                   "the variable standing for an output register in the SSA-simplified graph is the most recently "
                   "assigned identifier mapped to it by simplifier.all_ssa_vars (DeadRemoval's own rule)",
                   "lifted stratum: x86_32 only (no ARM), leaf functions of vlib.ccorpus without relocation"]
    level_text = ("randomized differential execution of both simplification pipelines against the original graph on "
                  "generated complete functions")
    technique = "property-based differential testing with a concrete IR interpreter, root cause by substitution"

    def nshards(self, tier):
        return 32 if tier == "thorough" else 16

    def run_shard(self, tier, seed, shard, nshards):
        res = ShardResult()
        n = 180 if tier == "thorough" else 30
        if shard % 8 == 7:
            return self.run_lifted(res, seed, n)
        strat = gg.graph(voc(), depth=3, max_blocks=12)
        cnt = [0]

        def one(g):
            cnt[0] += 1
            info = {}
            fails = judge({"graph": g}, res.counters, info)
            shapes = set(g["meta"]["shapes"])
            for s in shapes:
                res.counters["shape:" + s] += 1
            branchy = bool(shapes & {"diamond", "ifthen", "multiway", "loop", "while", "irreducible", "swaploop",
                                     "lostcopy", "headloop", "earlyexit"})
            nt = branchy and info.get("ssa:removed", 0) > 0
            js = gg.ser(g)
            res.case(nontrivial_key=repr(js) if nt else None, sample=js if nt and cnt[0] % 29 == 1 else None)
            for b, d in fails:
                res.fail(b, d, {"graph": js})
        hyp.survey(strat, n, seed, one)
        # hazard-directed stratum: load / possibly-aliasing store / use
        import random
        from vlib.runner import derive_seed
        na = 150 if tier == "thorough" else 24
        for i in range(na):
            g = ag.alias_graph(voc(), random.Random(derive_seed(seed, "alias", i)))
            info = {}
            fails = judge({"graph": g}, res.counters, info)
            for s in set(g["meta"]["shapes"]):
                res.counters["shape:" + s] += 1
            nt = info.get("ssa:removed", 0) > 0
            js = gg.ser(g)
            res.counters["alias-cases"] += 1
            res.case(nontrivial_key=repr(js) if nt else None, sample=js if nt and i == 3 and shard % 4 == 0 else None)
            for b, d in fails:
                res.fail(b, d, {"graph": js})
        return res

    def run_lifted(self, res, seed, n):
        """functions of the compiled-C corpus (x86_32, -O0/-O1/-O2/-Os), lifted with the model-call lifter"""
        fns, dropped = gg.compile_functions(seed % 100000, 4)
        res.dropped.update(dropped)
        # deterministic selection of n functions spread over the optimisation levels
        n = max(6, n // 4)
        fns.sort(key=lambda f: (f["tag"], f["opt"]))
        step = max(1, len(fns) // n)
        if step % 2 == 0:
            step += 1       # 4 optimisation levels per function: visit all of them
        for fn in fns[::step][:n]:
            info = {}
            fails = judge({"lifted": fn}, res.counters, info)
            res.counters["lifted:" + fn["opt"]] += 1
            nt = info.get("ssa:removed", 0) > 0
            res.case(nontrivial_key=repr(fn) if nt else None,
                     sample={"lifted": dict(fn, code=fn["code"][:64] + "...")} if nt and fn["opt"] == "-O1" else None)
            for b, d in fails:
                res.fail(b, d, {"lifted": fn})
        return res

    def replay(self, case):
        if "lifted" in case:
            fails = judge(case)
            if not fails:
                return None
            return Failure(fails[0][0], fails[0][1], case)
        g = gg.deser(case["graph"])
        fails = judge({"graph": g})
        if not fails:
            return None
        want = case.get("_bucket")
        for b, d in fails:
            if want is None or b == want:
                return Failure(b, d, case)
        b, d = fails[0]
        return Failure(b, d, case)

    def shrink(self, failure, tier):
        if "lifted" in failure.case:
            return failure
        g = gg.deser(failure.case["graph"])

        def pred(x):
            return any(b == failure.bucket for b, _ in judge({"graph": x}))
        small = gg.shrink_graph(g, pred, budget=60 if tier == "quick" else 600)
        for b, d in judge({"graph": small}):
            if b == failure.bucket:
                return Failure(b, d, {"graph": gg.ser(small)})
        return failure


CHECK = C36()
