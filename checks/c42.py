"""C42 — PE images round-trip through build and parse.

Generator: histories of loader-API operations (vlib.binlab.PESim) on a 32- or 64-bit `pe_init.PE()`:
header fields, sections (builder placed, with gaps, low-alignment images with explicit rva and virtual
size), import descriptors (names and ordinals, thunks in a fresh or an existing section), exports
(create/add_name, explicit ordinals), base relocations (add_reloc, HIGHLOW), virtual writes
(rva.set / virt.set / rva[...]), reloc_to(new base), and *round trips* (serialise with bytes(pe),
re-parse with PE(data), continue the history on the parsed object = "modified through the API").

Oracle: a plain-Python model kept next to the object (vlib.binlab.PESim): at every round trip
 * the serialised bytes are read by an independent struct-level PE reader (binlab.parse_pe_raw) and must
   hold the model's section table, contents, import / export tables, relocation entries, SizeOfImage;
 * the re-parsed object must have the header values of the serialised object (CheckSum excepted: computed
   while serialising), the values set through the API, the model's sections (header + file-backed
   content, directory-owned ranges excepted), import list (get_dlldesc, get_funcrva), export table,
   relocation entries;
 * rva2off / off2rva / rva2virt / virt2rva / virt2off / off2virt and their compositions agree with
   plain arithmetic on the section table at the first, second, middle and last file-backed byte of each
   section; rva.get / virt.get / section.data return the model content; writes read back at once and
   after serialisation; reloc_to(b) adds b - ImageBase (mod 2^32) to every relocated slot, changes no
   other byte and sets ImageBase.
"""
from vlib.runner import Check, ShardResult, Failure
from vlib import hyp, binlab


def run_ops(ops):
    """-> (CheckFailure | None, sim)"""
    sim = binlab.PESim()
    try:
        for op in ops:
            sim.step(op)
        sim.finish()
    except hyp.CheckFailure as f:
        return f, sim
    return None, sim


def probe(name):
    """Fixed API probes (not generated).  -> (bucket, detail) | None"""
    binlab.quiet_loggers()
    from miasm.loader import pe_init
    if name == "add_reloc_fresh":
        # relocations created through the API on a freshly built image
        for wsize in (32, 64):
            pe = pe_init.PE(wsize=wsize)
            s = pe.SHList.add_section(name="data", rawsize=0x1000, data=b"\x11" * 0x40)
            try:
                pe.DirReloc.add_reloc([s.addr + 4, s.addr + 0x10])
            except Exception as e:
                return ("api:add_reloc:no-relocation-directory:%s" % type(e).__name__,
                        "PE(wsize=%d); add_section; DirReloc.add_reloc([rva, rva]) raised %r" % (wsize, e))
    elif name == "add_reloc_parsed_noreloc":
        pe = pe_init.PE(wsize=32)
        s = pe.SHList.add_section(name="data", rawsize=0x1000, data=b"\x11" * 0x40)
        q = pe_init.PE(bytes(pe))
        try:
            q.DirReloc.add_reloc([s.addr + 4])
        except Exception as e:
            return ("api:add_reloc:no-relocation-directory:%s" % type(e).__name__,
                    "PE(bytes(PE with one section)).DirReloc.add_reloc([rva]) raised %r" % (e,))
    return None


PROBES = ("add_reloc_fresh", "add_reloc_parsed_noreloc")


def nontrivial_key(sim, ops):
    nsec = len([s for s in sim.sections])
    if nsec >= 2 and (sim.imports or sim.slots) and sim.n_rt >= 1:
        return repr(ops)
    return None


class C42(Check):
    pid = "C42"
    rule = ("Hypothesis histories (<= 14 ops, quick 70 / thorough 1600 per shard x 16 shards) of loader-API calls on "
            "pe_init.PE(wsize=32|64): init(alignments, e_lfanew, ImageBase), header field set, add_section (builder "
            "placed / gap / low-alignment explicit rva + virtual size), add_dlldesc (names, ordinals, thunks in a new or "
            "an existing section), DirExport.create/add_name, DirReloc.add_reloc, rva.set / virt.set, reloc_to, and "
            "serialise + re-parse steps after which the history continues on the parsed object; every history ends "
            "with a round trip. Non-trivial: final image has >= 2 sections and an import or relocation directory; "
            "distinct by op list.")
    assumptions = [
        "sections are added in ascending rva order, do not overlap, raw sizes >= len(data); the first file offset is "
        "given explicitly (0x600/0x800) when the file alignment is < 0x1000, as vm2pe does, because add_section reserves "
        "room for one section header only and the builder itself warns about the overlap",
        "relocations cannot be created through the API on an image without relocation directory (reported as finding "
        "api:add_reloc:*); the generator initialises DirReloc.reldesc = [] and the directory size to 0 first, then uses "
        "add_reloc; only HIGHLOW (type 3) entries: reloc_to raises NotImplementedError for the others",
        "directories are (re)placed with <Dir>.set_rva into a fresh section of rawsize len(<Dir>) before each "
        "serialisation, as example/loader/build_pe.py does; CheckSum is outside the comparison (computed while "
        "serialising, not stored in the object); delay-import, resource and TLS directories are not generated",
        "virtual writes and relocation slots lie in the file-backed part of a section (offset < min(rawsize, "
        "virtual size)) and outside import thunk arrays; relocation slots do not overlap each other",
        "export names are passed as bytes (add_name on a parsed image compares them with parsed bytes names)",
    ]
    level_text = "generated-input search against a model; no violation found is not a proof"
    technique = "model-based API histories + independent PE reader"

    def nshards(self, tier):
        return 16

    def run_shard(self, tier, seed, shard, nshards):
        res = ShardResult()
        if shard == 0:
            for name in PROBES:
                r = probe(name)
                res.evaluations += 1
                res.counters["probe:" + name] += 1
                if r is not None:
                    res.fail(r[0], r[1], {"probe": name})
        n = 1600 if tier == "thorough" else 70
        cnt = [0]

        def one(ops):
            cnt[0] += 1
            f, sim = run_ops(ops)
            key = nontrivial_key(sim, ops)
            res.case(nontrivial_key=key, sample={"ops": ops} if (key and cnt[0] % 25 == 1) else None)
            for k, v in sim.stats.items():
                res.counters["sim:" + k] += v
            res.counters["pe:%d-bit" % sim.wsize] += 1
            res.counters["pe:sections"] += len(sim.sections)
            if sim.imports:
                res.counters["pe:with-imports"] += 1
            if sim.exports:
                res.counters["pe:with-exports"] += 1
            if sim.slots:
                res.counters["pe:with-relocs"] += 1
            if sim.low_align:
                res.counters["pe:low-alignment"] += 1
            if sim.n_rt >= 2:
                res.counters["pe:modified-after-parse"] += 1
            if f is not None:
                res.fail(f.bucket, f.detail, {"ops": ops})
        hyp.survey(binlab.pe_history(), n, seed, one)
        return res

    def replay(self, case):
        if "probe" in case:
            r = probe(case["probe"])
            return Failure(r[0], r[1], case) if r else None
        f, _ = run_ops(case["ops"])
        if f is None:
            return None
        return Failure(f.bucket, f.detail, case)

    def shrink(self, failure, tier):
        if "probe" in failure.case:
            return failure
        ops = failure.case["ops"]
        head, tail = ops[:1], ops[1:]
        if not head or head[0][0] != "init":
            head, tail = [], ops

        def still(cand):
            f, _ = run_ops(head + cand)
            return f is not None and f.bucket == failure.bucket
        if still([]):
            small = []
        else:
            small = hyp.ddmin_list(tail, still, budget=300)
        f, _ = run_ops(head + small)
        if f is None or f.bucket != failure.bucket:
            return failure
        return Failure(f.bucket, f.detail, {"ops": head + small})


CHECK = C42()
