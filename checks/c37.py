"""C37 — SSA construction is valid and out-of-SSA preserves behaviour.

Generated: connected structured IR graphs (vlib.irgraphgen.graph) over 4 data registers, 2 flags,
an 8-bit and a 16-bit identifier, stack / register / absolute memory cells: diamonds, multi-way
branches, counted / while / irreducible two-entry loops, loops through the head, early exits, swap
loops (a, b = b, a each turn, in parallel or through a temporary) and lost-copy loops; half of the
graphs end with an observer AssignBlock storing every register to memory, so that every register is
live at the exits.

Judged
  A. after SSADiGraph(copy).transform(head):
     * every identifier assigned in the graph (IRDst apart) has exactly one definition;
     * every ordinary use (source or memory pointer outside a Phi line) of an identifier defined in the
       graph is dominated by the definition (same block and earlier line, or a strict dominator block;
       dominators by node-removal reachability on the transformed graph);
     * Phi lines: only in the first AssignBlock; for every predecessor P of the block some argument's
       definition dominates P, every argument's definition dominates some predecessor, and the argument set
       equals the set of versions of the variable that are current at the end of the predecessors (last
       definition of a version of the variable in the nearest dominator of P, P included);
     * every ordinary use names the current version of its variable.
  B. after DiGraphLivenessSSA + UnSSADiGraph (as IRCFGSimplifierSSA.ssa_to_unssa does): for 8 initial states
     the concrete interpreter gives, on the original and on the translated graph, the same final memory
     contents (every byte written by either run) and the same exit destination.  Register effects are
     observed through memory: the observer epilogue stores every register, and conditions / pointers /
     stored values depend on them.  (The translated graph has no identifier named after the original
     registers any more, and UnSSADiGraph's liveness input protects no SSA version at the exits, so no
     register is read back by name.)
     The translation is judged twice: on the fresh SSA form, and on the SSA form after a copy propagation
     done by this check (uses of x replaced by y when x's definition is `x = y`; value preserving on valid SSA),
     which is the input UnSSADiGraph gets inside IRCFGSimplifierSSA and the one that makes Phi-related
     variables interfere (lost-copy / swap problems); buckets of the second kind are prefixed
     unssa-after-copy-propagation.
"""
import re

from vlib.runner import Check, ShardResult, Failure
from vlib import hyp
from vlib import irgraphgen as gg

_state = {}
NSTATES = 8
_VER = re.compile(r"^(.*)\.(\d+)$")


def voc():
    if "voc" not in _state:
        _state["voc"] = gg.Vocab(nvars=4, flags=2, small=True, mem=True, calls=False, rich=True, ncounters=3,
                                 observe=2)
    return _state["voc"]


def cn(e):
    return e.__class__.__name__


def base_of(v):
    """(base name, size) of an SSA version identifier X.n, else None"""
    mo = _VER.match(v.name)
    if mo is None:
        return None
    return (mo.group(1), v.size)


def uses_of(e, out=None):
    return gg.expr_ids(e, out)


def is_phi(s):
    return cn(s) == "ExprOp" and s.op == "Phi"


# ---------------------------------------------------------------------------------- part A

def check_ssa(ssa_cfg, head):
    """-> list of (bucket, detail); second value: number of Phi lines"""
    fails = []
    blocks = {lk: [list(ab.items()) for ab in blk] for lk, blk in ssa_cfg.blocks.items()}
    succ = {lk: [s for s in ssa_cfg.successors(lk) if s in blocks] for lk in blocks}
    pred = {lk: [] for lk in blocks}
    for lk, ss in succ.items():
        for s in ss:
            pred[s].append(lk)
    dom = gg.dominators(succ, head)
    if set(dom) != set(blocks):
        return [("ssa:unreachable-block", "blocks not reachable from the head after transform: %s"
                 % sorted(str(b) for b in set(blocks) - set(dom)))], 0
    # definitions
    defs = {}
    for b, abs_ in blocks.items():
        for i, ab in enumerate(abs_):
            for d, s in ab:
                if cn(d) == "ExprId" and d.name != "IRDst":
                    defs.setdefault(d, []).append((b, i))
    for v, where in sorted(defs.items(), key=lambda kv: kv[0].name):
        if len(where) != 1:
            fails.append(("ssa:multiple-definitions", "%s is assigned at %s"
                          % (v, ["(%s, %d)" % w for w in where])))
            return fails, 0
    defpt = {v: w[0] for v, w in defs.items()}

    def dominates_point(v, b, i):
        db, di = defpt[v]
        if db == b:
            return di < i
        return db in dom[b]

    # idom chain (nearest first): strict dominators sorted by decreasing number of dominators
    chain = {b: sorted((d for d in dom[b] if d != b), key=lambda d: -len(dom[d])) for b in blocks}
    # versions defined per block, in line order
    vers = {b: [] for b in blocks}      # [(line, base, var)]
    for v, (b, i) in defpt.items():
        bs = base_of(v)
        if bs is not None:
            vers[b].append((i, bs, v))
    for b in vers:
        vers[b].sort(key=lambda t: t[0])

    def current(bs, b, i):
        """version of base bs current before line i of block b (None: the initial value)"""
        for li, bb, v in reversed(vers[b]):
            if bb == bs and li < i:
                return v
        for d in chain[b]:
            for li, bb, v in reversed(vers[d]):
                if bb == bs:
                    return v
        return None

    nphi = 0
    versioned_bases = set(base_of(v) for v in defpt if base_of(v) is not None)
    for b, abs_ in sorted(blocks.items(), key=lambda kv: kv[0].key):
        for i, ab in enumerate(abs_):
            phis = [(d, s) for d, s in ab if is_phi(s)]
            if phis and (i != 0 or len(phis) != len(ab)):
                fails.append(("ssa:phi-misplaced", "Phi in line %d of %s mixed with ordinary assignments or not first"
                              % (i, b)))
                return fails, nphi
            if phis:
                nphi += 1
                for d, s in phis:
                    args = list(s.args)
                    bs = base_of(d)
                    for a in args:
                        if cn(a) != "ExprId" or a not in defpt:
                            fails.append(("ssa:phi-argument-undefined", "%s = %s in %s: argument %s has no definition"
                                          % (d, s, b, a)))
                            return fails, nphi
                        if base_of(a) != bs:
                            fails.append(("ssa:phi-argument-base", "%s = %s in %s: argument %s of another variable"
                                          % (d, s, b, a)))
                            return fails, nphi
                    for p in pred[b]:
                        if not any(defpt[a][0] in dom[p] for a in args):
                            fails.append(("ssa:phi-no-argument-for-predecessor",
                                          "%s = %s in %s: no argument is defined on the paths to predecessor %s"
                                          % (d, s, b, p)))
                            return fails, nphi
                    for a in args:
                        if not any(defpt[a][0] in dom[p] for p in pred[b]):
                            fails.append(("ssa:phi-argument-dominates-no-predecessor",
                                          "%s = %s in %s: the definition of %s (in %s) dominates no predecessor of the block"
                                          % (d, s, b, a, defpt[a][0])))
                            return fails, nphi
                    want = set(current(bs, p, len(blocks[p])) for p in pred[b])
                    if want != set(args):
                        fails.append(("ssa:phi-arguments",
                                      "%s = %s in %s: versions current at the end of the predecessors %s are %s"
                                      % (d, s, b, [str(p) for p in pred[b]], sorted(map(str, want)))))
                        return fails, nphi
                continue
            for d, s in ab:
                used = uses_of(s)
                if cn(d) == "ExprMem":
                    uses_of(d.ptr, used)
                for u in used:
                    if u in defpt:
                        if not dominates_point(u, b, i):
                            fails.append(("ssa:use-not-dominated",
                                          "%s used in line %d of %s (%s = %s) but defined at (%s, %d)"
                                          % (u, i, b, d, s, defpt[u][0], defpt[u][1])))
                            return fails, nphi
                        bs = base_of(u)
                        if bs is not None and current(bs, b, i) != u:
                            fails.append(("ssa:use-version",
                                          "line %d of %s (%s = %s) uses %s but the current version is %s"
                                          % (i, b, d, s, u, current(bs, b, i))))
                            return fails, nphi
                    elif (u.name, u.size) in versioned_bases and u.name != "IRDst":
                        # plain register read although the register has versions: must be the initial value
                        if current((u.name, u.size), b, i) is not None:
                            fails.append(("ssa:use-unrenamed",
                                          "line %d of %s (%s = %s) reads %s but version %s is current"
                                          % (i, b, d, s, u, current((u.name, u.size), b, i))))
                            return fails, nphi
    return fails, nphi


# ---------------------------------------------------------------------------------- part B

def out_of_ssa(lifter, ssa, head):
    """as IRCFGSimplifierSSA.ssa_to_unssa -> None | (bucket, detail)"""
    from miasm.analysis.outofssa import UnSSADiGraph
    from miasm.analysis.data_flow import DiGraphLivenessSSA
    try:
        lv = DiGraphLivenessSSA(ssa.graph)
        lv.init_var_info(lifter)
        lv.compute_liveness()
        UnSSADiGraph(ssa, head, lv)
    except Exception as ex:
        import traceback
        tb = traceback.extract_tb(ex.__traceback__)
        where = "?"
        for fr in reversed(tb):
            if "/miasm/" in fr.filename:
                where = "%s:%s" % (fr.filename.split("/miasm/")[-1], fr.name)
                break
        return ("exception:%s@%s" % (type(ex).__name__, where), "out-of-SSA raised %r" % ex)
    for blk in ssa.graph.blocks.values():
        for ab in blk:
            for d, s_ in ab.items():
                if is_phi(s_):
                    return ("phi-left", "%s = %s remains in %s" % (d, s_, blk.loc_key))
    return None


def base_map(n, sz):
    mo = _VER.match(n)
    if mo is None:
        return (n, sz)
    return (mo.group(1), sz)


def judge(graph, stats=None, info=None):
    from miasm.analysis.ssa import SSADiGraph
    fails = []
    lifter, ircfg, keys = gg.build(graph)
    head = keys[graph["head"]]
    work = gg.copy_ircfg(ircfg)
    ssa = SSADiGraph(work)
    try:
        ssa.transform(head)
    except Exception as ex:
        return [("ssa:exception:%s" % type(ex).__name__, "SSADiGraph.transform raised %r" % ex)]
    f, nphi = check_ssa(work, head)
    fails += f
    if info is not None:
        info["nphi"] = nphi
    if stats is not None:
        stats["phi-lines"] += nphi
    out_regs = set(lifter.get_out_regs(None))
    # B1: out of SSA of the fresh SSA form
    r = out_of_ssa(lifter, ssa, head)
    if r is None:
        r = gg.compare_runs(ircfg, work, head, stats=stats, word="translated")
    if r:
        fails.append(("unssa:" + r[0], r[1]))
    # B2: out of SSA after copy propagation on the SSA form (what the SSA simplifier feeds it with: this is where
    # Phi-related variables start to interfere -- lost-copy and swap problems)
    work2 = gg.copy_ircfg(ircfg)
    ssa2 = SSADiGraph(work2)
    ssa2.transform(head)
    nrepl = gg.ssa_copy_propagate(work2)
    if nrepl:
        if stats is not None:
            stats["copy-propagated-graphs"] += 1
        r = out_of_ssa(lifter, ssa2, head)
        if r is None:
            r = gg.compare_runs(ircfg, work2, head, stats=stats, word="translated")
        if r:
            fails.append(("unssa-after-copy-propagation:" + r[0], r[1]))
    return fails


class C37(Check):
    pid = "C37"
    rule = ("Hypothesis: connected structured IR graphs (vlib.irgraphgen: diamond / multi-way / counted, while and "
            "irreducible two-entry loops / loop through the head / early exit / swap loop / lost-copy loop; parallel "
            "AssignBlock hazards of vlib.irgen; <= 12 blocks; x86_32 model-call lifter; half of them with an observer "
            "epilogue storing all registers). SSADiGraph.transform judged statically (single definition, dominance of "
            "uses with an independent node-removal dominator oracle, Phi arguments = versions current at the end of the "
            "predecessors); DiGraphLivenessSSA + UnSSADiGraph judged by running original and translated graph on 8 "
            "states (final memory contents and exit destination). Non-trivial: the SSA form "
            "has >= 1 Phi line; distinct by serialised graph.")
    assumptions = ["operators without evaluation rule are pure keyed hashes",
                   "register effects are compared through the memory writes that store them (observer epilogue, "
                   "stores, pointers) and the branch decisions, not by identifier name",
                   "copy propagation performed by the check on the SSA form is value preserving (single "
                   "definitions, dominance of uses: both checked first)"]
    level_text = ("randomized structural validation of SSA construction and differential execution of the out-of-SSA "
                  "translation against the original graph")
    technique = "property-based testing: static SSA invariants + differential concrete interpretation"

    def nshards(self, tier):
        return 32 if tier == "thorough" else 16

    def run_shard(self, tier, seed, shard, nshards):
        res = ShardResult()
        n = 360 if tier == "thorough" else 60
        strat = gg.graph(voc(), depth=3, max_blocks=12)
        cnt = [0]

        def one(g):
            cnt[0] += 1
            info = {}
            fails = judge(g, res.counters, info)
            for s in set(g["meta"]["shapes"]):
                res.counters["shape:" + s] += 1
            nt = info.get("nphi", 0) > 0
            js = gg.ser(g)
            res.case(nontrivial_key=repr(js) if nt else None, sample=js if nt and cnt[0] % 41 == 1 else None)
            for b, d in fails:
                res.fail(b, d, {"graph": js})
        hyp.survey(strat, n, seed, one)
        return res

    def replay(self, case):
        g = gg.deser(case["graph"])
        fails = judge(g)
        if not fails:
            return None
        want = case.get("_bucket")
        for b, d in fails:
            if want is None or b == want:
                return Failure(b, d, case)
        b, d = fails[0]
        return Failure(b, d, case)

    def shrink(self, failure, tier):
        g = gg.deser(failure.case["graph"])

        def pred(x):
            return any(b == failure.bucket for b, _ in judge(x))
        small = gg.shrink_graph(g, pred, budget=300 if tier == "quick" else 1500)
        for b, d in judge(small):
            if b == failure.bucket:
                return Failure(b, d, {"graph": gg.ser(small)})
        return failure


CHECK = C37()
