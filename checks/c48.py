"""C48 — emulated allocators return fresh, non-overlapping mappings.

Model-based histories on an x86_32 jitter (python engine).  Two flavours, as a process is either:
* "win":   common.heap.alloc, kernel32_HeapAlloc / GlobalAlloc / LocalAlloc, msvcrt_malloc / new / realloc,
           kernel32_VirtualAlloc (no hint, hint, hint on an existing region), ntdll_ZwAllocateVirtualMemory —
           the stubs are called with stack arguments exactly as the emulated program would;
* "next_addr": the bump pointer common.heap.next_addr alone (sizes up to 16 MiB, nothing mapped);
* "linux": LinuxEnvironment_x86_32.mmap (anonymous, hinted, MAP_FIXED), brk (query, grow, shrink, regrow),
           linux_stdlib xxx_malloc.
Nothing is ever freed by these environments (HeapFree / VirtualFree / free are no-ops), so every allocation
stays live; MAP_FIXED replaces what it covers.

Oracle: a list of live regions (start, size) in plain integers.  After each request: the returned region is
mapped in the VmMngr for at least the requested size, it intersects no live region (earlier allocations, the
stack, pre-existing pages) and its address differs from the address of every live allocation.
"""
from vlib.runner import Check, ShardResult, Failure
from vlib import hyp

SIZES = [0, 0, 0, 1, 2, 8, 0x10, 0x100, 0xfff, 0x1000, 0x1001, 0x1fff, 0x2000, 0x2345, 0x10000, 0x20001]
BIG_SIZES = SIZES + [3, 0xffe, 0xfff, 0x1001, 0x1002, 0x2fff, 0x3001, 0x7ffff, 0x100000, 0xffffff, 0x1000001]
RET = 0x1337beef
SCRATCH = 0x10000          # page used for in/out pointer arguments
MAP_FIXED = 0x10
ANON = 0x22                # MAP_PRIVATE | MAP_ANONYMOUS
BRK_BASE = 0x74000000

_proc = {}


def get_jitter():
    if "jit" not in _proc:
        from miasm.analysis.machine import Machine
        from miasm.core.locationdb import LocationDB
        import logging
        from vlib.quiet import quiet_stdout
        with quiet_stdout():        # win_api_x86_32 prints "cannot find crypto, skipping" when imported
            import miasm.os_dep.win_api_x86_32  # noqa
        jit = Machine("x86_32").jitter(LocationDB(), "python")
        _proc["jit"] = jit
        for name in ("win_api_x86_32", "environment", "jit function call", "vmmngr"):
            logging.getLogger(name).setLevel(logging.ERROR)
    return _proc["jit"]


class Sim(object):
    def __init__(self, flavour):
        from miasm.jitter.csts import PAGE_READ, PAGE_WRITE
        self.flavour = flavour
        jit = get_jitter()
        jit.vm.reset_memory_page_pool()
        jit.vm.reset_code_bloc_pool()
        jit.init_stack()
        jit.vm.add_memory_page(SCRATCH, PAGE_READ | PAGE_WRITE, b"\0" * 0x100, "scratch")
        self.jit = jit
        self.vm = jit.vm
        # live regions: [start, size, label, is_allocation]
        self.live = []
        for a, info in jit.vm.get_all_memory().items():
            self.live.append([a, info["size"], "pre-existing page", False])
        self.nalloc = 0
        self.nzero = 0
        self.raised = 0
        self.raised_kinds = {}
        self.failures = []        # (bucket, detail), first of each bucket
        if flavour == "next_addr":
            # the bump pointer alone (what VirtualAlloc / ZwAllocateVirtualMemory use directly): no page is
            # mapped, so sizes up to 16 MiB are affordable
            from miasm.os_dep.common import heap
            self.heap = heap()
        elif flavour == "win":
            import miasm.os_dep.win_api_x86_32 as winapi
            from miasm.os_dep.common import heap
            self.api = winapi
            winapi.winobjs.heap = heap()
            winapi.winobjs.allocated_pages = {}
            self.heap = winapi.winobjs.heap
        else:
            from miasm.os_dep.linux import environment
            import miasm.os_dep.linux_stdlib as lstd
            from miasm.os_dep.common import heap
            self.env = environment.LinuxEnvironment_x86_32()
            self.lstd = lstd
            lstd.linobjs.heap = heap()
            self.brk_cur = BRK_BASE
            self.brk_max = BRK_BASE      # end of what brk ever claimed

    # -- calling helpers
    def call(self, fn, *args):
        jit = self.jit
        esp = jit.cpu.ESP
        jit.func_prepare_stdcall(RET, *args)
        try:
            fn(jit)
            if jit.pc != RET:
                raise hyp.CheckFailure("harness:return-address", "%s returned to 0x%x" % (fn.__name__, jit.pc))
            return jit.cpu.EAX
        finally:
            jit.cpu.ESP = esp

    # -- model
    def _overlaps(self, a, size):
        for r in self.live:
            if size and r[1] and a < r[0] + r[1] and r[0] < a + size:
                return r
        return None

    def new_alloc(self, api, addr, size, what, check_mapped=True):
        """a request that must yield a fresh region"""
        self.nalloc += 1
        if size == 0:
            self.nzero += 1
        desc = "%s -> 0x%x" % (what, addr)
        if check_mapped and size and not self.vm.is_mapped(addr, size):
            raise hyp.CheckFailure("%s:not-mapped%s" % (api, self._zero_at(addr)),
                                   "%s: [0x%x, +0x%x) is not entirely mapped" % (desc, addr, size))
        r = self._overlaps(addr, size)
        if r is not None:
            self.note("%s:overlaps:%s" % (api, "allocation" if r[3] else "pre-existing-page"),
                      "%s: [0x%x, +0x%x) overlaps live %s [0x%x, +0x%x)" % (desc, addr, size, r[2], r[0], r[1]))
        else:
            for r in self.live:
                if r[3] and r[0] == addr:
                    zero = "zero-size-involved" if (size == 0 or r[1] == 0) else "non-zero-sizes"
                    # the allocator to blame is the one that handed out a zero-sized region without reserving
                    # its address (the earlier one if it was zero-sized)
                    blame = r[4] if (r[1] == 0 and len(r) > 4) else api
                    if len(r) > 4 and family(r[4]) != family(api):
                        # bump heap vs mmap: each allocator is blind to (zero-sized) regions of the other
                        blame = api
                        zero = "foreign-allocator:" + zero
                    self.note("%s:same-address:%s" % (blame, zero),
                              "%s (size 0x%x) has the address of live %s (size 0x%x)" % (desc, size, r[2], r[1]))
                    break
        self.live.append([addr, size, what, True, api])

    def note(self, bucket, detail):
        """a breach that does not stop the history (the model goes on with the region as returned)"""
        if all(b != bucket for b, _ in self.failures):
            self.failures.append((bucket, detail))

    def _zero_at(self, addr):
        """state predicate for the bucket: a zero-sized allocation lives at this very address"""
        if any(r[3] and r[1] == 0 and r[0] == addr for r in self.live):
            return ":zero-sized-allocation-at-same-address"
        return ""

    def pick_live(self, sel, only_alloc=True):
        c = [r for r in self.live if r[3] or not only_alloc]
        if not c:
            return None
        return c[sel % len(c)]

    def hint(self, sel, mode):
        """an address derived from the state: base of / inside / just after a live region, or a far constant"""
        r = self.pick_live(sel, only_alloc=False)
        mode %= 5
        if mode == 0 or r is None:
            return [0x30000000, 0x60000000, 0x74004000, 0x75004000, 0x20004000][sel % 5]
        if mode == 1:
            return r[0]
        if mode == 2:
            return (r[0] + r[1] // 2) & ~0xfff
        if mode == 3:
            return (r[0] + r[1] + 0xfff) & ~0xfff
        return max(r[0] - 0x1000, 0x1000) & ~0xfff

    # -- ops
    def step(self, op):
        try:
            self._step(op)
        except (hyp.CheckFailure, DroppedOp):
            raise
        except Exception as ex:
            # an allocator that raises made no allocation (refusal); counted, not judged
            self.raised += 1
            k = "%s:%s" % (op[0], type(ex).__name__)
            self.raised_kinds[k] = self.raised_kinds.get(k, 0) + 1

    def _step(self, op):
        name = op[0]
        size = SIZES[op[1] % len(SIZES)] if len(op) > 1 else 0
        if self.flavour == "next_addr":
            size = BIG_SIZES[op[1] % len(BIG_SIZES)]
            addr = self.heap.next_addr(size)
            self.new_alloc("heap.next_addr", addr, size, "heap.next_addr(0x%x)" % size, check_mapped=False)
            return
        if self.flavour == "win":
            api = self.api
            if name == "heap.alloc":
                self.new_alloc(name, self.heap.alloc(self.jit, size), size, "heap.alloc(0x%x)" % size)
            elif name == "HeapAlloc":
                self.new_alloc(name, self.call(api.kernel32_HeapAlloc, 0x1, 0, size), size, "HeapAlloc(size=0x%x)" % size)
            elif name == "GlobalAlloc":
                self.new_alloc(name, self.call(api.kernel32_GlobalAlloc, 0, size), size, "GlobalAlloc(0x%x)" % size)
            elif name == "LocalAlloc":
                self.new_alloc(name, self.call(api.kernel32_LocalAlloc, 0, size), size, "LocalAlloc(0x%x)" % size)
            elif name == "malloc":
                self.new_alloc(name, self.call(api.msvcrt_malloc, size), size, "malloc(0x%x)" % size)
            elif name == "new":
                self.new_alloc(name, self.call(api.msvcrt_new, size), size, "operator new(0x%x)" % size)
            elif name == "realloc":
                r = self.pick_live(op[2])
                if r is None or r[1] == 0:
                    self.new_alloc(name, self.call(api.msvcrt_realloc, 0, size), size, "realloc(NULL, 0x%x)" % size)
                else:
                    nsz = max(size, r[1])       # growing only: shrinking copies the old size (not an allocation matter)
                    self.new_alloc(name, self.call(api.msvcrt_realloc, r[0], nsz), nsz, "realloc(0x%x, 0x%x)" % (r[0], nsz))
            elif name == "VirtualAlloc":
                prot = [0x4, 0x40, 0x2, 0x20][op[2] % 4]
                self.new_alloc(name, self.call(api.kernel32_VirtualAlloc, 0, size, 0x3000, prot), size,
                               "VirtualAlloc(NULL, 0x%x)" % size)
            elif name == "VirtualAlloc_hint":
                h = self.hint(op[2], op[3])
                existing = [r for r in self.live if r[0] == h]
                got = self.call(api.kernel32_VirtualAlloc, h, size, 0x1000, 0x4)
                what = "VirtualAlloc(0x%x, 0x%x)" % (h, size)
                if existing and got == h:
                    # commit inside an existing region: not a new allocation
                    if size > max(r[1] for r in existing):
                        raise DroppedOp("VirtualAlloc commit larger than the existing region")
                    return
                self.new_alloc("VirtualAlloc", got, size, what)
            elif name == "ZwAllocateVirtualMemory":
                self.vm.set_u32(SCRATCH, 0)
                self.vm.set_u32(SCRATCH + 4, size)
                st = self.call(api.ntdll_ZwAllocateVirtualMemory, 0xffffffff, SCRATCH, 0, SCRATCH + 4, 0x3000, 0x4)
                if st != 0:
                    return
                self.new_alloc(name, self.vm.get_u32(SCRATCH), size, "ZwAllocateVirtualMemory(size=0x%x)" % size)
            else:
                raise ValueError(op)
            return
        # linux
        env = self.env
        if name == "xxx_malloc":
            self.new_alloc(name, self.call(self.lstd.xxx_malloc, size), size, "malloc(0x%x)" % size)
        elif name == "mmap":
            got = env.mmap(0, size, 3, ANON, 0xffffffff, 0, self.vm)
            self.new_alloc("mmap", got, size, "mmap(NULL, 0x%x)" % size)
        elif name == "mmap_hint":
            h = self.hint(op[2], op[3])
            got = env.mmap(h, size, 3, ANON, 0xffffffff, 0, self.vm)
            self.new_alloc("mmap:hint", got, size, "mmap(0x%x, 0x%x)" % (h, size))
        elif name == "mmap_fixed":
            h = self.hint(op[2], op[3])
            if any((not r[3]) and size and r[1] and h < r[0] + r[1] and r[0] < h + size for r in self.live):
                raise DroppedOp("MAP_FIXED over the stack / scratch page")
            if size and h < max(self.brk_max, self.brk_cur) and BRK_BASE < h + size:
                raise DroppedOp("MAP_FIXED inside the program break area")
            got = env.mmap(h, size, 3, ANON | MAP_FIXED, 0xffffffff, 0, self.vm)
            what = "mmap(0x%x, 0x%x, MAP_FIXED)" % (h, size)
            self.nalloc += 1
            if got != h:
                raise hyp.CheckFailure("mmap:fixed:address", "%s -> 0x%x" % (what, got))
            if size and not self.vm.is_mapped(h, size):
                raise hyp.CheckFailure("mmap:fixed:not-mapped", "%s: region not entirely mapped" % what)
            # MAP_FIXED replaces what it covers: the covered parts of earlier allocations are no longer live
            if size:
                nl = []
                for r in self.live:
                    if not r[1] or r[0] + r[1] <= h or h + size <= r[0]:
                        nl.append(r)
                        continue
                    if r[0] < h:
                        nl.append([r[0], h - r[0], r[2] + " (head)", r[3]])
                    if r[0] + r[1] > h + size:
                        # the part above the fixed mapping is still a live region of the same kind (it has no
                        # allocation address of its own any more: never matched by the same-address rule since
                        # an allocator returning it would first overlap it)
                        nl.append([h + size, r[0] + r[1] - (h + size), r[2] + " (tail)", r[3]])
                self.live = nl
                self.live.append([h, size, what, True, "mmap:fixed"])
        elif name == "brk":
            mode = op[2] % 4
            if mode == 0:
                got = env.brk(0, self.vm)
                if got != self.brk_cur:
                    raise hyp.CheckFailure("brk:query", "brk(0) = 0x%x, current break 0x%x" % (got, self.brk_cur))
                return
            if mode == 3:
                new = max(BRK_BASE, self.brk_cur - (size or 0x1000))
            else:
                new = self.brk_cur + (size or 0x1000)
            old = self.brk_cur
            got = env.brk(new, self.vm)
            what = "brk(0x%x) (was 0x%x)" % (new, old)
            self.nalloc += 1
            if got != new:
                # the break was refused: nothing allocated
                self.brk_cur = got
                return
            self.brk_cur = new
            if new > BRK_BASE and not self.vm.is_mapped(BRK_BASE, new - BRK_BASE):
                raise hyp.CheckFailure("brk:not-mapped", "%s: [0x%x, 0x%x) not entirely mapped" % (what, BRK_BASE, new))
            if new > self.brk_max:
                r = self._overlaps(self.brk_max, new - self.brk_max)
                if r is not None:
                    self.note("brk:overlaps:%s" % ("allocation" if r[3] else "pre-existing-page"),
                              "%s: the break area [0x%x, 0x%x) overlaps live %s [0x%x, +0x%x)"
                              % (what, self.brk_max, new, r[2], r[0], r[1]))
                self.brk_max = new
        else:
            raise ValueError(op)

    def finish(self):
        for r in self.live:
            if self.flavour != "next_addr" and r[3] and r[1] and not self.vm.is_mapped(r[0], r[1]):
                raise hyp.CheckFailure("finish:allocation-no-longer-mapped" + self._zero_at(r[0]),
                                       "%s [0x%x, +0x%x)" % (r[2], r[0], r[1]))
        if self.flavour == "linux" and self.brk_max > BRK_BASE:
            # the break area is a live region too: later allocations must not have landed in it
            for r in self.live:
                if r[3] and r[1] and r[0] < self.brk_max and BRK_BASE < r[0] + r[1]:
                    self.note("brk:overlaps:allocation", "break area [0x%x, 0x%x) overlaps live %s [0x%x, +0x%x)"
                              % (BRK_BASE, self.brk_max, r[2], r[0], r[1]))


def family(api):
    return "mmap" if api.startswith("mmap") else "heap"


class DroppedOp(Exception):
    pass


WIN_OPS = ["heap.alloc", "HeapAlloc", "HeapAlloc", "GlobalAlloc", "LocalAlloc", "malloc", "new", "realloc",
           "VirtualAlloc", "VirtualAlloc", "VirtualAlloc_hint", "ZwAllocateVirtualMemory"]
LINUX_OPS = ["xxx_malloc", "mmap", "mmap", "mmap_hint", "mmap_hint", "mmap_fixed", "brk", "brk"]


def history_strategy():
    from hypothesis import strategies as st
    small = st.integers(0, 40)

    def ops(names):
        return st.lists(st.tuples(st.sampled_from(names), small, small, small), min_size=1, max_size=12)
    return st.one_of(st.tuples(st.just("win"), ops(WIN_OPS)), st.tuples(st.just("win"), ops(WIN_OPS)),
                     st.tuples(st.just("linux"), ops(LINUX_OPS)), st.tuples(st.just("linux"), ops(LINUX_OPS)),
                     st.tuples(st.just("next_addr"), ops(["next_addr"])))


def run_case(case, stats=None):
    """-> (list of (bucket, detail), sim)"""
    from vlib.quiet import quiet_stderr
    sim = Sim(case["flavour"])
    with quiet_stderr():
        try:
            for op in case["ops"]:
                try:
                    sim.step(op)
                except DroppedOp as d:
                    if stats is not None:
                        stats.dropped[str(d)] += 1
            sim.finish()
        except hyp.CheckFailure as f:       # fatal ones: the model cannot go on
            sim.note(f.bucket, f.detail)
    return sim.failures, sim


class C48(Check):
    pid = "C48"
    needs_build = True
    rule = ("Hypothesis histories of 1-12 requests on a fresh x86_32 VM (stack and one scratch page pre-mapped). "
            "'win' histories: heap.alloc, HeapAlloc, GlobalAlloc, LocalAlloc, malloc, operator new, realloc (grow), "
            "VirtualAlloc without hint / with a hint derived from the state (base of, inside, after, before a live "
            "region, far constants), ZwAllocateVirtualMemory, called through the stdcall/cdecl stack protocol; 'linux' "
            "histories: mmap anonymous / hinted / MAP_FIXED, brk query / grow / shrink / regrow, malloc; 'next_addr' "
            "histories: heap.next_addr alone with sizes up to 16 MiB; sizes from "
            "{0, 1, 2, 8, 0x10, 0x100, 0xfff, 0x1000, 0x1001, 0x1fff, 0x2000, 0x2345, 0x10000, 0x20001}. After each "
            "request: region mapped for the requested size, disjoint from every live region, address different from "
            "every live allocation. Non-trivial: >= 3 allocations including a zero-sized request; distinct by history.")
    assumptions = ["nothing is freed (HeapFree / VirtualFree / free / munmap are no-ops or absent in these environments), "
                   "so every allocation stays live; MAP_FIXED replaces the parts of earlier regions it covers",
                   "VirtualAlloc with the base address of an existing region and a size within it is a commit of that "
                   "region (same address), not a new allocation; a commit larger than the region is out of domain",
                   "an allocator call that raises has allocated nothing (counted, not judged)",
                   "sizes are bounded by 0x20001 bytes: exhaustion / wrap-around of the 32-bit bump pointer is not explored",
                   "MAP_FIXED over the stack, the scratch page or the program-break area is not generated as a judged request"]
    level_text = ("randomized model-based testing of the Windows and Linux allocation stubs, called as the emulated "
                  "program calls them, against an interval model of live regions")
    technique = "model-based property testing (Hypothesis request histories, live-region oracle)"

    def nshards(self, tier):
        return 16

    def run_shard(self, tier, seed, shard, nshards):
        res = ShardResult()
        n = 4000 if tier == "thorough" else 400
        cnt = [0]

        def one(h):
            cnt[0] += 1
            case = {"flavour": h[0], "ops": [list(o) for o in h[1]]}
            f, sim = run_case(case, res)
            nt = sim.nalloc >= 3 and sim.nzero >= 1
            res.case(nontrivial_key=repr(case) if nt else None, sample=case if nt and cnt[0] % 60 == 1 else None)
            res.counters["flavour:" + case["flavour"]] += 1
            res.counters["requests"] += sim.nalloc
            res.counters["zero-sized requests"] += sim.nzero
            res.counters["requests that raised"] += sim.raised
            for k, v in sim.raised_kinds.items():
                res.counters["raised:" + k] += v
            for b, d in f:
                res.fail(b, d, dict(case, _bucket=b))
        hyp.survey(history_strategy(), n, seed, one)
        return res

    def replay(self, case):
        f, _ = run_case(case)
        if not f:
            return None
        want = case.get("_bucket")
        for b, d in f:
            if b == want:
                return Failure(b, d, case)
        return Failure(f[0][0], f[0][1], case)

    def shrink(self, failure, tier):
        case = failure.case

        def still(ops):
            f, _ = run_case(dict(case, ops=ops))
            return any(b == failure.bucket for b, _ in f)
        ops = hyp.ddmin_list(case["ops"], still, budget=150)
        small = dict(case, ops=ops)
        f, _ = run_case(small)
        for b, d in f:
            if b == failure.bucket:
                return Failure(b, d, small)
        return failure


CHECK = C48()
