"""C10 — range analysis over-approximates every concrete value.

(a) ModularIntervals operations against brute force over the members of the operand sets:
    exhaustive for sizes 1..4 over all ordered pairs of single intervals, and for sizes 1..3 over all
    ordered pairs of arbitrary subsets (multi-interval sets); Hypothesis samples for size 4 multi-interval
    sets and sizes 5..8.  Concrete semantics: vlib.refeval.eval_op (fixed-width machine arithmetic, shifts by
    >= size give 0 / sign fill, rotations modulo size).
(b) expr_range(e) against the reference evaluator S: S(e, v) must be a member of expr_range(e) for every
    valuation v on which every sub-expression of e is defined.
"""
import itertools

from hypothesis import strategies as st

from vlib.runner import Check, ShardResult, Failure
from vlib import exprgen, hyp, simplab
from vlib.refeval import S, Undefined, Uninterpreted, eval_op

BINOPS = ['+', '&', '|', '^', '*', '<<', '>>', 'a>>', '>>>', '<<<']
HANDLED = set(BINOPS) | set(['-', '%'])


def _mi():
    from miasm.analysis.modularintervals import ModularIntervals
    return ModularIntervals


def apply_binop(op, x, y):
    if op == '+':
        return x + y
    if op == '&':
        return x & y
    if op == '|':
        return x | y
    if op == '^':
        return x ^ y
    if op == '*':
        return x * y
    if op == '<<':
        return x << y
    if op == '>>':
        return x >> y
    if op == 'a>>':
        return x.arithmetic_shift_right(y)
    if op == '>>>':
        return x.rotation_right(y)
    if op == '<<<':
        return x.rotation_left(y)
    raise ValueError(op)


_tables = {}


def table(op, size):
    k = (op, size)
    if k not in _tables:
        n = 1 << size
        _tables[k] = [[eval_op(op, [x, y], [size, size], size) for y in range(n)] for x in range(n)]
    return _tables[k]


def members_of(intervals):
    out = []
    for a, b in intervals:
        out.extend(range(a, b + 1))
    return out


def result_mask(mi):
    """bitmask of the members of a ModularIntervals (read through its documented .intervals)"""
    r = 0
    for a, b in mi.intervals:
        r |= (1 << (b + 1)) - (1 << a)
    return r


def runs(bits, n):
    """maximal runs of set bits of the n-bit mask `bits` -> [(lo, hi)]"""
    out = []
    x = 0
    while x < n:
        if (bits >> x) & 1:
            lo = x
            while x + 1 < n and (bits >> (x + 1)) & 1:
                x += 1
            out.append((lo, x))
        x += 1
    return out


def _sample(vals, cap):
    if len(vals) <= cap:
        return vals
    step = len(vals) // cap + 1
    return sorted(set(vals[::step]) | {vals[0], vals[-1]})


def _where(ex):
    import traceback
    for fr in reversed(traceback.extract_tb(ex.__traceback__)):
        if "/miasm/" in fr.filename:
            return "%s:%s" % (fr.filename.split("/miasm/")[-1], fr.name)
    return "?"


class Info(Exception):
    """outcome outside the judged domain (counted)"""


def judge_set_case(c):
    """c: dict describing one interval-set operation.  -> None | (bucket, detail); raises Info"""
    MI = _mi()
    size = c["size"]
    mask = (1 << size) - 1
    kind = c["kind"]
    xi = [tuple(p) for p in c["x"]]
    X = members_of(xi)

    def mk(iv):
        return MI(size, [tuple(p) for p in iv])
    try:
        if kind == "binop":
            op = c["op"]
            yi = [tuple(p) for p in c["y"]]
            Y = members_of(yi)
            as_int = c.get("y_as_int", False)
            r = apply_binop(op, mk(xi), Y[0] if as_int else mk(yi))
            rm = result_mask(r)
            if r.size != size:
                return ("%s:result-size" % op, "%s %s %s has size %r" % (mk(xi), op, mk(yi), r.size))
            if size <= 4:
                t = table(op, size)
                for x in X:
                    row = t[x]
                    for y in Y:
                        if not (rm >> row[y]) & 1:
                            return ("%s:unsound" % op, "size %d: %s %s %s = %s does not contain %d %s %d = %d"
                                    % (size, mk(xi), op, Y[0] if as_int else mk(yi), r, x, op, y, row[y]))
            else:
                for x in _sample(X, 64):
                    for y in _sample(Y, 64):
                        v = eval_op(op, [x, y], [size, size], size)
                        if not (rm >> v) & 1:
                            return ("%s:unsound" % op, "size %d: %s %s %s = %s does not contain %d %s %d = %d"
                                    % (size, mk(xi), op, mk(yi), r, x, op, y, v))
            return None
        if kind == "neg":
            r = -mk(xi)
            rm = result_mask(r)
            for x in X:
                if not (rm >> ((-x) & mask)) & 1:
                    return ("neg:unsound", "size %d: -%s = %s does not contain -%d = %d" % (size, mk(xi), r, x, (-x) & mask))
            return None
        if kind == "mod":
            mod = c["mod"]
            r = mk(xi) % mod
            rm = result_mask(r)
            for x in X:
                if not (rm >> (x % mod)) & 1:
                    return ("mod:unsound", "size %d: %s %% %d = %s does not contain %d %% %d = %d"
                            % (size, mk(xi), mod, r, x, mod, x % mod))
            return None
        if kind == "size_update":
            new = c["new"]
            if new < size and X and X[-1] > (1 << new) - 1:
                raise Info("size_update precondition")
            r = mk(xi).size_update(new)
            if r.size != new or sorted(members_of(r.intervals)) != X:
                return ("size_update:unsound", "size %d: %s.size_update(%d) = %s" % (size, mk(xi), new, r))
            return None
        if kind in ("union", "intersection"):
            yi = [tuple(p) for p in c["y"]]
            Y = members_of(yi)
            r = getattr(mk(xi), kind)(mk(yi))
            want = (set(X) | set(Y)) if kind == "union" else (set(X) & set(Y))
            got = set(members_of(r.intervals))
            if not want <= got:
                return ("%s:unsound" % kind, "size %d: %s.%s(%s) = %s misses %s" % (size, mk(xi), kind, mk(yi), r, sorted(want - got)))
            return None
    except Info:
        raise
    except Exception as ex:
        if not X or (kind in ("binop", "union", "intersection") and not c["y"]):
            raise Info("exception with an empty operand: %s %s" % (c.get("op", kind), type(ex).__name__))
        return ("%s:exception:%s@%s" % (c.get("op", kind), type(ex).__name__, _where(ex)), "%r raised %r" % (c, ex))
    raise ValueError(kind)


# ----------------------------------------------------------------------------
# (b) expr_range

SMALLW = [1, 2, 3, 3, 4, 4, 5, 6, 8, 8, 12, 16]
UNHANDLED_BIN = ['/', 'udiv', 'umod', 'sdiv', 'smod']


def _m():
    import miasm.expression.expression as m
    return m


@st.composite
def rleaf(draw, w, cfg):
    m = _m()
    k = draw(st.integers(0, 9))
    if k < 5:
        return draw(exprgen.ints(w))
    if k < 9 or not cfg.get("mem", True):
        return m.ExprId("%s%d" % (draw(st.sampled_from("ab")), w), w)
    return m.ExprMem(m.ExprId("p8", 8), w)


@st.composite
def rexpr(draw, w, depth, cfg=None):
    cfg = cfg or {}
    m = _m()
    if depth <= 0 or draw(st.integers(0, 7)) == 0:
        return draw(rleaf(w, cfg))
    sub = lambda ww: rexpr(ww, depth - 1, cfg)
    kinds = ['nary', 'nary', 'nary', 'shift', 'shift', 'shiftc', 'shiftc', 'neg', 'mod', 'cond', 'slice', 'slice',
             'mask', 'unhandled']
    if w >= 2:
        kinds += ['compose', 'compose', 'compose', 'ext']
    if w == 1:
        kinds += ['cmp']
    kind = draw(st.sampled_from(kinds))
    if kind == 'nary':
        n = draw(st.sampled_from([2, 2, 2, 3]))
        return m.ExprOp(draw(st.sampled_from(['+', '&', '|', '^', '*'])), *[draw(sub(w)) for _ in range(n)])
    if kind == 'mask':
        return m.ExprOp(draw(st.sampled_from(['&', '|', '^', '+', '*'])), draw(sub(w)), draw(exprgen.ints(w)))
    if kind == 'shift':
        return m.ExprOp(draw(st.sampled_from(['<<', '>>', 'a>>', '>>>', '<<<'])), draw(sub(w)), draw(sub(w)))
    if kind == 'shiftc':
        mw = (1 << w) - 1
        c = draw(st.sampled_from(sorted({0, 1 & mw, (w - 1) & mw, w & mw, (w + 1) & mw, mw, w // 2}))) if draw(st.booleans()) \
            else draw(st.integers(0, mw))
        return m.ExprOp(draw(st.sampled_from(['<<', '>>', 'a>>', '>>>', '<<<'])), draw(sub(w)), m.ExprInt(c, w))
    if kind == 'neg':
        return m.ExprOp('-', draw(sub(w)))
    if kind == 'mod':
        if draw(st.integers(0, 3)) == 0:
            return m.ExprOp('%', draw(sub(w)), draw(sub(w)))
        return m.ExprOp('%', draw(sub(w)), draw(exprgen.ints(w)))
    if kind == 'cond':
        cw = draw(st.sampled_from([1, 1, w]))
        return m.ExprCond(draw(sub(cw)), draw(sub(w)), draw(sub(w)))
    if kind == 'slice':
        w2 = draw(st.one_of(st.sampled_from([w + 1, 2 * w, w + 8]), st.integers(w + 1, w + 16)))
        start = draw(st.integers(0, w2 - w))
        return m.ExprSlice(draw(sub(w2)), start, start + w)
    if kind == 'compose':
        nparts = draw(st.integers(2, min(3, w)))
        cuts = sorted(draw(st.lists(st.integers(1, w - 1), min_size=nparts - 1, max_size=nparts - 1, unique=True)))
        b = [0] + cuts + [w]
        return m.ExprCompose(*[draw(sub(b[i + 1] - b[i])) for i in range(len(b) - 1)])
    if kind == 'ext':
        w2 = draw(st.integers(1, w - 1))
        return m.ExprOp(draw(st.sampled_from(["zeroExt_%d", "signExt_%d"])) % w, draw(sub(w2)))
    if kind == 'cmp':
        w2 = draw(st.sampled_from(SMALLW))
        return m.ExprOp(draw(st.sampled_from(exprgen.CMP)), draw(sub(w2)), draw(sub(w2)))
    if kind == 'unhandled':
        k = draw(st.integers(0, 2))
        if k == 0:
            return m.ExprOp(draw(st.sampled_from(UNHANDLED_BIN)), draw(sub(w)), draw(sub(w)))
        if k == 1:
            return m.ExprOp(draw(st.sampled_from(['cntleadzeros', 'cnttrailzeros'])), draw(sub(w)))
        return m.ExprOp('**', draw(sub(w)), draw(sub(w)))
    raise AssertionError(kind)


@st.composite
def range_cases(draw):
    w = draw(st.one_of(st.sampled_from(SMALLW), st.integers(1, 16)))
    return draw(rexpr(w, draw(st.integers(1, 3))))


def strict_value(e, env):
    """S(e) when every sub-expression (both branches of conditionals too) is defined, else Undefined"""
    for sub in simplab.subexprs(e):
        if sub.__class__.__name__ == 'ExprCond':
            S(sub.src1, simplab.clone_env(env))
            S(sub.src2, simplab.clone_env(env))
    return S(e, simplab.clone_env(env))


def range_of(e):
    from miasm.analysis.expression_range import expr_range
    return expr_range(e)


def check_range(e, exhaustive_bits, nrandom, stats=None):
    """-> None | (kind, detail, info)"""
    envs = []
    for env, exh in simplab.valuations(e, nrandom=nrandom, exhaustive_bits=exhaustive_bits):
        try:
            envs.append((env, strict_value(e, env), exh))
        except Undefined:
            if stats is not None:
                stats["valuations dropped: a sub-expression divides by zero"] += 1
    if not envs:
        if stats is not None:
            stats["expressions dropped: undefined under every valuation"] += 1
        return None
    try:
        r = range_of(e)
    except Exception as ex:
        return ("exception:%s@%s" % (type(ex).__name__, _where(ex)), "expr_range(%s) raised %r" % (e, ex))
    if r.size != e.size:
        return ("result-size", "expr_range(%s) has size %r" % (e, r.size))
    rm = result_mask(r)
    if stats is not None:
        stats["valuations"] += len(envs)
        if envs[0][2]:
            stats["expressions with all valuations"] += 1
    for env, v, _ in envs:
        if not (rm >> v) & 1:
            return ("unsound", "expr_range(%s) = %s does not contain the value 0x%x taken under %s"
                    % (e, r, v, simplab.env_desc(env)))
    return None


def is_full(e):
    r = range_of(e)
    return result_mask(r) == (1 << (1 << e.size)) - 1


def judge_expr(e, exhaustive_bits=9, nrandom=59, stats=None, attribute=True):
    try:
        r = check_range(e, exhaustive_bits, nrandom, stats)
    except Uninterpreted:
        if stats is not None:
            stats["expressions dropped: uninterpreted"] += 1
        return None
    if r is None:
        return None
    kind, detail = r
    if not attribute:
        return (kind, detail)
    for sub in sorted(simplab.subexprs(e), key=simplab.size_of):
        if sub is e:
            break
        try:
            r2 = check_range(sub, exhaustive_bits, nrandom)
        except Uninterpreted:
            continue
        if r2 is not None and r2[0] == kind:
            return ("expr_range:%s:%s" % (kind, simplab._kind(sub)), r2[1] + " [inside %s]" % e)
    return ("expr_range:%s:%s" % (kind, simplab._kind(e)), detail)


# ----------------------------------------------------------------------------

@st.composite
def set_cases(draw):
    """multi-interval operands of sizes 4..8"""
    size = draw(st.sampled_from([4, 4, 5, 6, 7, 8, 8]))
    mask = (1 << size) - 1

    def ivs():
        out = []
        for _ in range(draw(st.integers(1, 3))):
            lo = draw(st.one_of(st.sampled_from([0, 1, mask >> 1, (mask >> 1) + 1, mask - 1, mask, size - 1, size]),
                                st.integers(0, mask)))
            ln = draw(st.sampled_from([0, 0, 1, 2, 3, 7, 15, size, mask]))
            out.append([lo, min(mask, lo + ln)])
        return out
    k = draw(st.integers(0, 19))
    if k < 16:
        return {"kind": "binop", "size": size, "op": draw(st.sampled_from(BINOPS)), "x": ivs(), "y": ivs()}
    if k == 16:
        return {"kind": "neg", "size": size, "x": ivs()}
    if k == 17:
        return {"kind": "mod", "size": size, "x": ivs(), "mod": draw(st.one_of(st.sampled_from([1, 2, size, mask]), st.integers(1, mask)))}
    if k == 18:
        return {"kind": "size_update", "size": size, "x": ivs(), "new": draw(st.integers(1, 10))}
    return {"kind": draw(st.sampled_from(["union", "intersection"])), "size": size, "x": ivs(), "y": ivs()}


def canon(c):
    """operands as canonical (sorted, merged) interval lists, so that equal sets give equal cases"""
    out = dict(c)
    for k in ("x", "y"):
        if k in c:
            bits = 0
            for a, b in c[k]:
                bits |= (1 << (b + 1)) - (1 << a)
            out[k] = [list(p) for p in runs(bits, 1 << c["size"])]
    return out


class C10(Check):
    pid = "C10"
    rule = ("(a) ModularIntervals: exhaustive for sizes 1..4 over all ordered pairs of single intervals and for "
            "sizes 1..3 over all ordered pairs of arbitrary subsets (multi-interval and empty sets), each with "
            "+ & | ^ * << >> a>> >>> <<< (second operand also passed as a plain integer when it is one value), "
            "plus neg, % every constant 1..mask, size_update to 1..8, union, intersection; Hypothesis samples of "
            "1..3-interval operands for sizes 4..8. Every concrete result over the members (all members for "
            "sizes <= 4, <= 64x64 members incl. bounds above) must be in the result set. (b) expr_range: "
            "Hypothesis trees of widths 1..16 (biased to 1..6), depth <= 3, over the handled operators "
            "(+ & | ^ * << >> a>> >>> <<<, unary -, % const), slices, compositions, conditionals, memory, and "
            "unhandled operators (division family, **, cnt*zeros, ext, comparisons); all valuations when the "
            "identifiers total <= 9 bits (thorough: 12), else 5 boundary + 59 pseudo-random; S(e, v) must be in "
            "expr_range(e). Non-trivial: (a) every enumerated (operands, operation) triple, distinct by "
            "construction; sampled ones distinct by canonical operands; (b) the computed range is not the full "
            "domain; distinct by expression text.")
    assumptions = ["concrete semantics of the operations are those of the reference evaluator (shift counts >= size "
                   "give 0 or the sign fill, rotation counts are taken modulo the size, % is unsigned)",
                   "valuations on which any sub-expression (including the branch not taken of a conditional) "
                   "divides by zero are dropped",
                   "exceptions raised when an operand is the empty set are counted, not judged (containment is "
                   "vacuous there); size_update to a smaller size is only called when its documented "
                   "precondition holds; modulo by the constant 0 is outside the domain",
                   "binary '-' and ExprLoc/ExprAssign are outside expr_range's documented domain"]
    level_text = ("exhaustive check of every interval-set transfer function for widths 1..4 plus randomized "
                  "differential testing of expr_range against the reference evaluator for widths 1..16")
    technique = "exhaustive enumeration (small widths) + property-based differential testing (Hypothesis, reference evaluator)"

    def nshards(self, tier):
        return 32 if tier == "thorough" else 16

    # -- enumeration -----------------------------------------------------------
    def _enum(self, tier):
        """generator of set cases, the same sequence in every shard (sharded by index)"""
        for size in (1, 2, 3, 4):
            n = 1 << size
            mask = n - 1
            singles = [[(a, b)] for a in range(n) for b in range(a, n)]
            if size <= 3:
                operands = [runs(bits, n) for bits in range(1 << n)]       # every subset, incl. empty
            else:
                operands = singles
            for xi in operands:
                for yi in operands:
                    for op in BINOPS:
                        yield {"kind": "binop", "size": size, "op": op, "x": xi, "y": yi}
                        if len(yi) == 1 and yi[0][0] == yi[0][1]:
                            yield {"kind": "binop", "size": size, "op": op, "x": xi, "y": yi, "y_as_int": True}
                    yield {"kind": "union", "size": size, "x": xi, "y": yi}
                    yield {"kind": "intersection", "size": size, "x": xi, "y": yi}
                yield {"kind": "neg", "size": size, "x": xi}
                for mod in range(1, mask + 1):
                    yield {"kind": "mod", "size": size, "x": xi, "mod": mod}
                for new in range(1, 9):
                    yield {"kind": "size_update", "size": size, "x": xi, "new": new}

    def run_shard(self, tier, seed, shard, nshards):
        res = ShardResult()
        # (a) exhaustive
        for i, c in enumerate(self._enum(tier)):
            if i % nshards != shard:
                continue
            try:
                r = judge_set_case(c)
            except Info as inf:
                res.counters["info: %s" % inf] += 1
                continue
            res.evaluations += 1
            res.nontrivial_extra += 1
            res.counters["enumerated:size%d:%s" % (c["size"], c.get("op", c["kind"]))] += 1
            if r is not None:
                res.fail("modint:" + r[0], r[1], jsonable_case(c))
        for size in (1, 2, 3):
            res.exhaustive["size%d: all ordered pairs of subsets x every operation" % size] = True
        res.exhaustive["size4: all ordered pairs of single intervals x every operation"] = True
        if shard == 0:
            res.samples.append({"kind": "binop", "size": 4, "op": "a>>", "x": [[7, 9]], "y": [[1, 5]]})
            res.samples.append({"kind": "binop", "size": 3, "op": "+", "x": [[0, 1], [5, 6]], "y": [[3, 3], [7, 7]]})

        # (a') sampled multi-interval operands, sizes 4..8
        nset = 4000 if tier == "thorough" else 300

        def one_set(c):
            cc = canon(c)
            try:
                r = judge_set_case(cc)
            except Info as inf:
                res.counters["info: %s" % inf] += 1
                return
            res.case(nontrivial_key=("set", repr(sorted(cc.items()))))
            res.counters["sampled:size%d" % cc["size"]] += 1
            if r is not None:
                res.fail("modint:" + r[0], r[1], jsonable_case(cc))
        hyp.survey(set_cases(), nset, seed, one_set)

        # (b) expr_range
        nex = 5000 if tier == "thorough" else 500
        bits = 12 if tier == "thorough" else 9
        cnt = [0]

        def one_expr(e):
            cnt[0] += 1
            r = judge_expr(e, bits, 59, res.counters)
            try:
                nt = not is_full(e)
            except Exception:
                nt = False
            res.counters["expr_range result: %s" % ("partial" if nt else "full domain")] += 1
            res.case(nontrivial_key=("expr", repr(e)) if nt else None,
                     sample={"expr": str(e), "range": str(range_of(e))} if nt and cnt[0] % 83 == 0 else None)
            if r is not None:
                res.fail(r[0], r[1], {"kind": "expr", "expr": simplab.ser(e), "bits": bits})
        hyp.survey(range_cases(), nex, seed + 1, one_expr)
        return res

    def replay(self, case):
        if case["kind"] == "expr":
            r = judge_expr(simplab.deser(case["expr"]), case.get("bits", 12), 59)
            if r is None:
                return None
            return Failure(r[0], r[1], case)
        try:
            r = judge_set_case(case)
        except Info:
            return None
        if r is None:
            return None
        return Failure("modint:" + r[0], r[1], case)

    def shrink(self, failure, tier):
        case = failure.case
        if case["kind"] == "expr":
            e = simplab.deser(case["expr"])
            bits = case.get("bits", 12)

            def pred(x):
                r = judge_expr(x, bits, 59)
                return r is not None and r[0] == failure.bucket
            small = simplab.shrink_expr(e, pred, budget=300 if tier == "quick" else 1500)
            r = judge_expr(small, bits, 59)
            if r is not None and r[0] == failure.bucket:
                return Failure(r[0], r[1], {"kind": "expr", "expr": simplab.ser(small), "bits": bits})
            return failure
        # interval sets: drop intervals, then narrow them
        cur = dict(case)

        def bad(c):
            try:
                r = judge_set_case(c)
            except Exception:
                return False
            return r is not None and "modint:" + r[0] == failure.bucket
        changed = True
        while changed:
            changed = False
            for k in ("x", "y"):
                if k not in cur:
                    continue
                ivs = [list(p) for p in cur[k]]
                cands = [ivs[:i] + ivs[i + 1:] for i in range(len(ivs)) if len(ivs) > 1]
                for i, (a, b) in enumerate(ivs):
                    if a < b:
                        cands.append(ivs[:i] + [[a + 1, b]] + ivs[i + 1:])
                        cands.append(ivs[:i] + [[a, b - 1]] + ivs[i + 1:])
                for cand in cands:
                    c2 = dict(cur)
                    c2[k] = cand
                    if bad(c2):
                        cur = c2
                        changed = True
                        break
                if changed:
                    break
        r = judge_set_case(cur)
        return Failure("modint:" + r[0], r[1], jsonable_case(cur))


def jsonable_case(c):
    out = dict(c)
    for k in ("x", "y"):
        if k in out:
            out[k] = [list(p) for p in out[k]]
    return out


CHECK = C10()
