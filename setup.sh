#!/bin/sh
# MANIFEST.setup_cmd: offline, from files on disk only.
set -e
cd "$(dirname "$0")"
export PIP_NO_INDEX=1
mkdir -p .deps
if [ ! -d .deps/z3 ]; then
  /venv/bin/pip install --no-index --find-links /opt/veriftools/wheels --target .deps z3-solver jsonschema >/dev/null 2>&1 || echo "setup: z3-solver not installed (C05/C06/C39/C41 will report a harness error)"
fi
/venv/bin/python -c "import hypothesis" 2>/dev/null || /venv/bin/pip install --no-index --find-links /opt/veriftools/wheels hypothesis >/dev/null
PYTHONPATH="$(pwd)" /venv/bin/python -m vlib.build
echo "setup done"
