#!/bin/sh
# run_all.sh <tier> [seed]: run every registered check sequentially, print one summary line each
T=${1:-quick}; export VERIF_SEED=${2:-1}
mkdir -p /var/tmp/verif-logs
for id in $(cat checks/READY); do
  ./run.py check $id --tier $T > /var/tmp/verif-logs/$id.$T.s$VERIF_SEED.log 2>&1
  echo "$id exit=$? $(tail -1 /var/tmp/verif-logs/$id.$T.s$VERIF_SEED.log | cut -c1-140)"
done
