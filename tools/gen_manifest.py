#!/venv/bin/python
"""Regenerate MANIFEST.json from the check modules present in checks/ (and validate it)."""
import importlib
import json
import os
import sys

HERE = os.path.dirname(os.path.dirname(os.path.abspath(__file__)))
sys.path.insert(0, HERE)
from vlib import runner  # noqa
runner.setup_paths()

NOT_BUILT = "no check registered yet for this property in this revision of /verif (see DESIGN.md section 5 for the planned generator and oracle)"
NA_OVERRIDES = {}

props = [json.loads(l) for l in open(os.path.join(HERE, "properties.jsonl"))]
checks = []
na = []
READY = set(open(os.path.join(HERE, "checks", "READY")).read().split())
for p in props:
    pid = p["id"]
    path = os.path.join(HERE, "checks", pid.lower() + ".py")
    if not os.path.exists(path) or pid in NA_OVERRIDES or pid not in READY:
        na.append({"property_id": pid, "reason": NA_OVERRIDES.get(pid, NOT_BUILT)})
        continue
    mod = importlib.import_module("checks." + pid.lower())
    c = mod.CHECK
    if getattr(c, "disabled_reason", None):
        na.append({"property_id": pid, "reason": c.disabled_reason})
        continue
    ent = {
        "property_id": pid,
        "quick_cmd": "./run.py check %s --tier quick" % pid,
        "thorough_cmd": "./run.py check %s --tier thorough" % pid,
        "evidence_file": "evidence/%s.json" % pid,
        "replay_cmd_template": "./run.py check %s --replay {path}" % pid,
        "engine": "pbt-runner",
        "level_claimed": {
            "category": c.level,
            "text": getattr(c, "level_text", "") or c.rule,
            "design_ref": "DESIGN.md section 5, %s" % pid,
        },
        "level_note": getattr(c, "level_note", "") or "; ".join(c.assumptions) or "oracle code in checks/%s.py is trusted" % pid.lower(),
        "technique": getattr(c, "technique", "property-based testing (Hypothesis) against an explicit oracle"),
    }
    checks.append(ent)

man = {
    "version": 1,
    "setup_cmd": "./setup.sh",
    "hooks": {
        "guard": "MIASM_VERIF",
        "enable": "no source hooks: checks import miasm straight from /repo's working tree and rebuild its C extensions in place (vlib/build.py) when a C source changed",
        "baseline_off_cmd": "cd /repo && /venv/bin/python -m pytest -ra -q -p no:cacheprovider --timeout=900 --continue-on-collection-errors",
        "source_commits": [],
        "add_only": True,
    },
    "engines": [
        {"name": "pbt-runner", "path": "run.py",
         "serves_properties": [c["property_id"] for c in checks],
         "kind_free_text": "Hypothesis-driven generators and exhaustive small-domain enumerations judged by explicit oracles; "
                           "survey-then-shrink runner (vlib/runner.py) with known-findings matching, replay files and evidence"}
    ],
    "checks": checks,
    "notes": "Every check: ./run.py check <ID> [--tier quick|thorough] [--replay FILE]; VERIF_SEED selects the seed; "
             "exit 0 held / 1 VIOLATION / 2 harness error. known_findings.json lists recorded genuine defects.",
    "not_applicable": na,
}
out = os.path.join(HERE, "MANIFEST.json")
with open(out, "w") as f:
    json.dump(man, f, indent=1)
    f.write("\n")
try:
    import jsonschema
    jsonschema.validate(man, json.load(open("/root/.vp/MANIFEST.schema.json")))
    print("MANIFEST valid: %d checks, %d not_applicable" % (len(checks), len(na)))
except ImportError:
    print("MANIFEST written (jsonschema not available): %d checks" % len(checks))
