#!/venv/bin/python
"""drop_known.py <PID> <entry id> ... : remove entries from known_findings.d/<PID>.json (delete file when empty)"""
import json, os, sys
p = os.path.join(os.path.dirname(os.path.dirname(os.path.abspath(__file__))), "known_findings.d", sys.argv[1] + ".json")
d = json.load(open(p))
ids = set(sys.argv[2:])
have = {e["id"] for e in d["findings"]}
assert ids <= have, (ids - have, have)
d["findings"] = [e for e in d["findings"] if e["id"] not in ids]
if d["findings"]:
    json.dump(d, open(p, "w"), indent=1)
    print(sys.argv[1], "kept", [e["id"] for e in d["findings"]])
else:
    os.remove(p); print(sys.argv[1], "removed file")
