#!/bin/sh
# with_mutant.sh <patch.diff> <command...>
# Runs <command> with VERIF_REPO pointing at a scratch copy of /repo (working tree, incl. built
# extensions) to which <patch.diff> has been applied; the copy is removed afterwards.
# C sources changed by the patch are rebuilt by the checks themselves (vlib/build.py).
set -e
PATCH="$(realpath "$1")"; shift
SCR="$(mktemp -d /var/tmp/miasm-mut.XXXXXX)"
trap 'rm -rf "$SCR"' EXIT
rsync -a --exclude .git --exclude 'build/temp*' /repo/ "$SCR/repo/"
( cd "$SCR/repo" && patch -p1 -s < "$PATCH" )
export VERIF_REPO="$SCR/repo"
export TMPDIR="$SCR/tmp"; mkdir -p "$TMPDIR"
set +e
"$@"
RC=$?
echo "with_mutant: exit=$RC"
exit $RC
