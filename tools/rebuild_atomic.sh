#!/bin/sh
# Build /repo's C extensions in a scratch copy and rename the products into /repo (running processes keep the old inode)
set -e
SCR=$(mktemp -d /var/tmp/miasm-rebuild.XXXXXX)
trap 'rm -rf "$SCR"' EXIT
rsync -a --exclude .git --exclude 'build/temp*' --exclude '*.so' /repo/ "$SCR/repo/"
( cd "$SCR/repo" && env -u PYTHONPATH /venv/bin/python setup.py build_ext --inplace > "$SCR/build.log" 2>&1 ) || { tail -30 "$SCR/build.log"; exit 1; }
( cd "$SCR/repo" && find miasm -name '*.so' ) | while read f; do cp "$SCR/repo/$f" "/repo/$f.new" && mv -f "/repo/$f.new" "/repo/$f"; done
PYTHONPATH=/verif /venv/bin/python - <<'PY'
from vlib import build
import os
print("importable:", build._importable())
open(os.path.join(build.REPO, "build", ".verif_cstamp2"), "w").write(build._csum())
PY
