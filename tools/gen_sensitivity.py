#!/venv/bin/python
"""Regenerate SENSITIVITY.md from seeded/*/meta.json (independent changes) and mutants/*/ (own mutants)."""
import glob
import json
import os

HERE = os.path.dirname(os.path.dirname(os.path.abspath(__file__)))
out = ["# Sensitivity: which check catches which change", "",
       "## Seeded changes written by independent sub-agents",
       "Each sub-agent saw only the property text and a scratch worktree of /repo. `confirmed` = the demonstration "
       "passes without the patch, fails with it, and miasm's pinned 280 tests still pass with it (re-run by "
       "`tools/seed_eval.py` in a scratch copy). Checks were run in the quick tier against the patched copy.", "",
       "| id | property | what the change needs to manifest (from notes.md) | confirmed | check -> result |",
       "|---|---|---|---|---|"]
n = caught = 0
for d in sorted(glob.glob(os.path.join(HERE, "seeded", "*"))):
    mp = os.path.join(d, "meta.json")
    if not os.path.exists(mp):
        continue
    m = json.load(open(mp))
    notes = ""
    np_ = os.path.join(d, "notes.md")
    if os.path.exists(np_):
        txt = open(np_).read()
        for line in txt.splitlines():
            l = line.strip().lstrip("#").strip()
            if len(l) > 40:
                notes = l[:220]
                break
    res = []
    ok = False
    for c, r in sorted(m.get("checks_run", {}).items()):
        b = [x.strip().replace("bucket=", "") for x in r.get("lines", []) if "bucket=" in x][:2]
        res.append("%s: %s%s" % (c, "CAUGHT" if r.get("caught") else (("MISSED" if c == m.get("property") else "not triggered (other property)") if r.get("exit") == 0 else "exit %s" % r.get("exit")),
                                 (" (" + "; ".join(b) + ")") if b else ""))
        ok = ok or r.get("caught")
    n += 1
    caught += 1 if ok else 0
    extra = m.get("note", "")
    out.append("| %s | %s | %s | %s | %s %s |" % (os.path.basename(d), m.get("property"), notes.replace("|", "/"),
                                                "yes" if m.get("confirmed") else "NO", "<br>".join(res).replace("|", "/"), extra))
out += ["", "Seeded changes caught by at least one check: %d of %d." % (caught, n), "",
        "## Own mutants (mutants/CNN/*.diff)", "Each was confirmed caught by the quick tier of its check through "
        "`tools/with_mutant.sh` when it was written (by the check's author); equivalent mutants were discarded.", ""]
for d in sorted(glob.glob(os.path.join(HERE, "mutants", "*"))):
    names = sorted(os.path.basename(x)[:-5] for x in glob.glob(os.path.join(d, "*.diff")))
    if names:
        out.append("* **%s** (%d): %s" % (os.path.basename(d), len(names), ", ".join(names)))
open(os.path.join(HERE, "SENSITIVITY.md"), "w").write("\n".join(out) + "\n")
print("seeded %d caught %d" % (n, caught))
