#!/bin/sh
# mk_breaker_wt.sh <name>: create a scratch git worktree of /repo under /tmp/wt-<name> with built extensions copied in
set -e
D=/tmp/wt-$1
git -C /repo worktree add -q --detach "$D" HEAD
cd /repo && find miasm -name '*.so' | while read f; do cp "$f" "$D/$f"; done
echo "$D"
