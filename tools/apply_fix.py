#!/venv/bin/python
"""apply_fix.py <fix name e.g. C34-1> <property ids comma-separated> [--dry]
Apply proposed_fixes/<name>.diff to /repo (patch -p1), commit it there with proposed_fixes/<name>.msg as the
message (must start with 'fix:'), record it as 'fixed' in known_findings.json and move the two files to
applied_fixes/.  Development-time tool; never used by checks."""
import json
import os
import shutil
import subprocess
import sys

HERE = os.path.dirname(os.path.dirname(os.path.abspath(__file__)))
name, pids = sys.argv[1], sys.argv[2].split(",")
dry = "--dry" in sys.argv
diff = os.path.join(HERE, "proposed_fixes", name + ".diff")
msgf = os.path.join(HERE, "proposed_fixes", name + ".msg")
msg = open(msgf).read().strip()
assert msg.startswith("fix:"), "message must start with fix:"
st = subprocess.run(["git", "-C", "/repo", "status", "--porcelain"], stdout=subprocess.PIPE).stdout.decode()
assert not st.strip(), "repo working tree not clean:\n" + st
r = subprocess.run(["patch", "-p1", "--dry-run", "-i", diff], cwd="/repo", stdout=subprocess.PIPE, stderr=subprocess.STDOUT)
print(r.stdout.decode().strip())
if r.returncode != 0:
    sys.exit("patch does not apply")
if dry:
    sys.exit(0)
subprocess.check_call(["patch", "-p1", "-s", "--no-backup-if-mismatch", "-i", diff], cwd="/repo")
subprocess.check_call(["git", "-C", "/repo", "add", "-u"])
subprocess.check_call(["git", "-C", "/repo", "commit", "-q", "-m", msg])
sha = subprocess.check_output(["git", "-C", "/repo", "rev-parse", "--short", "HEAD"]).decode().strip()
subject = msg.splitlines()[0]
body = [l.strip() for l in msg.splitlines()[1:] if l.strip()]
what = " ".join(body)[:400]
path = os.path.join(HERE, "known_findings.json")
data = json.load(open(path))
data["findings"].append({"id": "F-%s" % sha, "status": "fixed", "properties": pids, "commit": sha,
                         "commit_subject": subject, "what": what, "proposed_as": name,
                         "line": "fixed: property=%s %s %s" % (pids[0], sha, subject[5:].strip())})
json.dump(data, open(path, "w"), indent=1)
os.makedirs(os.path.join(HERE, "applied_fixes"), exist_ok=True)
shutil.move(diff, os.path.join(HERE, "applied_fixes", name + ".diff"))
shutil.move(msgf, os.path.join(HERE, "applied_fixes", name + ".msg"))
print("applied", name, "as", sha)
