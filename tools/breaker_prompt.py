#!/venv/bin/python
"""breaker_prompt.py <ID> [n]: print the prompt for an independent 'breaker' sub-agent (property text + worktree only)."""
import json, sys
pid = sys.argv[1]; n = sys.argv[2] if len(sys.argv) > 2 else "three"
for l in open('/verif/properties.jsonl'):
    p = json.loads(l)
    if p['id'] == pid:
        break
wt = "/tmp/wt-%s" % pid
print(f"""You are helping to evaluate how good a verification effort is. Your job is to act as a careful adversarial developer of the miasm reverse-engineering framework (https://github.com/cea-sec/miasm, Python with some C extensions). You have your own scratch git worktree of the repository at {wt} (work ONLY there; never touch /repo or /verif; do not read anything under /verif).

Property that must be broken:
"{p['title']}: {p['statement']} Quantified over: {p['quantifier']['text']}"
The code concerned lives mainly in: {', '.join(p['anchors']['files'])}.

Produce {n} different changes to miasm's source (each independent of the others, each applied to a clean checkout of the worktree), such that for each change:
 1. the package still imports and the existing pinned test suite still passes:  cd {wt} && PYTHONPATH={wt} /venv/bin/python -m pytest -q -p no:cacheprovider -n 4 test/arch/mep   (must report 280 passed);
 2. the property above is violated for at least one input/history, but NOT in a way that ordinary use would expose at once: the violation must need something specific to manifest — an unusual input (a boundary value, a particular width/size, a particular shape), a multi-step sequence of operations, a fault at a particular point, or two cooperating code sites that each look fine alone. Think of plausible regressions: an off-by-one in a guard, a refactoring that drops a corner case, an "optimisation" valid only for the common case, a changed default;
 3. you provide a demonstration program demo.py (plain Python, run as `PYTHONPATH={wt} /venv/bin/python demo.py`) that exits non-zero / raises AssertionError WITH the change and exits 0 WITHOUT it, by checking the property on a concrete input or sequence with an independently computed expected result.
Make the changes diverse (different functions / different mechanisms), realistic, small (a few lines), and subtle. If you change a C source file (miasm/jitter/*.c) you must rebuild the extensions inside the worktree with `cd {wt} && /venv/bin/python setup.py build_ext --inplace` (serial, no -j) before testing, and say so in notes.md; prefer Python changes unless the property is about C code.

For each change k create the directory {wt}/BREAK/k/ containing: patch.diff (output of `git -C {wt} diff` for that change alone, applicable with `git apply` on a clean checkout), demo.py, and notes.md (what the change is, which part of the property it breaks, what specific input/sequence is needed to manifest it, the exact commands you ran and their results with and without the change). Between changes restore the worktree with `git -C {wt} checkout -- .` (keep the untracked BREAK/ directory). Verify everything yourself: run the test suite and demo.py with the change applied, then without. Use PYTHONPATH={wt} so that `import miasm` resolves to the worktree (check with `python -c "import miasm; print(miasm.__file__)"`). Compiled extensions (*.so) are already present in the worktree. The machine is heavily loaded by other jobs: be patient with slow commands.

Your final message: a short list of the changes (file, function, one-line description, the input needed), and confirmation of the verification results.""")
