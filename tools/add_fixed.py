#!/venv/bin/python
"""add_fixed.py <property ids comma-separated> <repo commit> <what failed...>
Append a 'fixed' entry to known_findings.json (development-time tool; never used by checks)."""
import json
import os
import subprocess
import sys

HERE = os.path.dirname(os.path.dirname(os.path.abspath(__file__)))
path = os.path.join(HERE, "known_findings.json")
data = json.load(open(path))
pids = sys.argv[1].split(",")
sha = subprocess.check_output(["git", "-C", "/repo", "rev-parse", "--short", sys.argv[2]]).decode().strip()
subject = subprocess.check_output(["git", "-C", "/repo", "log", "-1", "--format=%s", sha]).decode().strip()
what = " ".join(sys.argv[3:])
for ent in data["findings"]:
    if ent.get("commit") == sha:
        print("already recorded", sha)
        sys.exit(0)
data["findings"].append({
    "id": "F-%s" % sha,
    "status": "fixed",
    "properties": pids,
    "commit": sha,
    "commit_subject": subject,
    "what": what,
    "line": "fixed: property=%s %s %s" % (pids[0], sha, what),
})
json.dump(data, open(path, "w"), indent=1)
print("recorded", sha)
