#!/bin/sh
# run_many.sh <tier> <ids...> : run checks sequentially, log to /var/tmp/verif-logs/<id>.<tier>.log, print summary lines
mkdir -p /var/tmp/verif-logs
T=$1; shift
for id in "$@"; do
  ./run.py check $id --tier $T > /var/tmp/verif-logs/$id.$T.log 2>&1
  echo "$id exit=$? $(tail -1 /var/tmp/verif-logs/$id.$T.log | cut -c1-150)"
done
