#!/venv/bin/python
"""seed_eval.py <src_dir> <dest_name> <property_id> <check_id> [<check_id>...] [--tier quick|thorough]

Confirms a seeded change (src_dir/patch.diff + demo.py + notes.md written by an independent sub-agent) in a scratch
copy of /repo: demo passes without the patch, fails with it, miasm's pinned tests pass with it; then runs the named
checks against the patched copy (VERIF_REPO) and stores everything under /verif/seeded/<dest_name>/ with meta.json.
The scratch copy is removed at the end.  /repo itself is never touched.
"""
import json
import os
import re
import shutil
import subprocess
import sys
import tempfile
import time

VERIF = os.path.dirname(os.path.dirname(os.path.abspath(__file__)))
PY = "/venv/bin/python"


def run(cmd, **kw):
    p = subprocess.run(cmd, stdout=subprocess.PIPE, stderr=subprocess.STDOUT, **kw)
    return p.returncode, p.stdout.decode("utf-8", "replace")


def main():
    args = sys.argv[1:]
    tier = "quick"
    if "--tier" in args:
        i = args.index("--tier")
        tier = args[i + 1]
        del args[i:i + 2]
    src, dest, pid = args[0], args[1], args[2]
    checks = args[3:]
    scr = tempfile.mkdtemp(prefix="miasm-seed.", dir="/var/tmp")
    meta = {"property": pid, "source": "independent sub-agent given only the property text and a scratch worktree",
            "checks_run": {}, "tier": tier}
    try:
        repo = os.path.join(scr, "repo")
        run(["rsync", "-a", "--exclude", ".git", "--exclude", "build/temp*", "/repo/", repo + "/"])
        env = dict(os.environ, PYTHONPATH=repo, PYTHONHASHSEED="0")
        demo = os.path.join(src, "demo.py")
        rc0, out0 = run([PY, demo], env=env, cwd=scr)
        meta["demo_without_patch_exit"] = rc0
        rc, out = run(["patch", "-p1", "-s", "-i", os.path.join(os.path.abspath(src), "patch.diff")], cwd=repo)
        if rc != 0:
            print("patch does not apply:", out)
            meta["patch_applies"] = False
            return 2
        rc1, out1 = run([PY, demo], env=env, cwd=scr)
        meta["demo_with_patch_exit"] = rc1
        meta["demo_with_patch_tail"] = out1[-600:]
        rct, outt = run([PY, "-m", "pytest", "-q", "-p", "no:cacheprovider", "-n", "8", "test/arch/mep"], env=env, cwd=repo)
        m = re.search(r"(\d+) passed", outt)
        meta["pinned_tests_with_patch"] = outt.strip().splitlines()[-1] if outt.strip() else ""
        meta["confirmed"] = (rc0 == 0 and rc1 != 0 and m is not None and int(m.group(1)) == 280 and "failed" not in meta["pinned_tests_with_patch"])
        print("demo clean=%d patched=%d tests: %s confirmed=%s" % (rc0, rc1, meta["pinned_tests_with_patch"], meta["confirmed"]))
        for c in checks:
            t0 = time.time()
            e2 = dict(os.environ, VERIF_REPO=repo, TMPDIR=os.path.join(scr, "tmp"))
            os.makedirs(e2["TMPDIR"], exist_ok=True)
            rcc, outc = run([os.path.join(VERIF, "run.py"), "check", c, "--tier", tier], env=e2, cwd=VERIF)
            viol = [l for l in outc.splitlines() if l.startswith("VIOLATION") or l.strip().startswith("bucket=")]
            meta["checks_run"][c] = {"exit": rcc, "caught": rcc == 1, "lines": viol[:8], "wall_s": round(time.time() - t0, 1)}
            print(c, "exit", rcc, viol[:4])
        d = os.path.join(VERIF, "seeded", dest)
        os.makedirs(d, exist_ok=True)
        for f in ("patch.diff", "demo.py", "notes.md"):
            if os.path.exists(os.path.join(src, f)):
                shutil.copy(os.path.join(src, f), os.path.join(d, f))
        with open(os.path.join(d, "meta.json"), "w") as f:
            json.dump(meta, f, indent=1, sort_keys=True)
        return 0
    finally:
        shutil.rmtree(scr, ignore_errors=True)
        # evidence files were rewritten by runs against the patched copy: restore the committed ones
        for c in checks:
            subprocess.run(["git", "-C", VERIF, "checkout", "--", "evidence/%s.json" % c],
                           stdout=subprocess.DEVNULL, stderr=subprocess.DEVNULL)


if __name__ == "__main__":
    sys.exit(main())
