#!/venv/bin/python
"""Regenerate FINDINGS.md from known_findings.json (fixed) and known_findings.d/*.json (known, not repaired)."""
import glob, json, os
HERE = os.path.dirname(os.path.dirname(os.path.abspath(__file__)))
d = json.load(open(os.path.join(HERE, "known_findings.json")))
fixed = [e for e in d["findings"] if e["status"] == "fixed"]
known = [e for e in d["findings"] if e["status"] == "known"]
for f in sorted(glob.glob(os.path.join(HERE, "known_findings.d", "*.json"))):
    known += [e for e in json.load(open(f))["findings"] if e["status"] == "known"]
out = ["# Genuine defects of cea-sec/miasm found by the checks", "",
       "Every entry was reproduced against the real code with a concrete failing input before it was accepted as genuine.",
       "", "## Repaired (%d `fix:` commits in /repo)" % len(fixed), "",
       "Each line is the `fixed: property=<id> <commit> <what failed>` record of known_findings.json. A fixed entry suppresses "
       "nothing: the shrunk failing input is kept under `regress/<id>/` (replayed first on every run) and the check reports the "
       "violation again if it returns.", "",
       "| properties | commit | subject | what failed |", "|---|---|---|---|"]
for e in fixed:
    out.append("| %s | %s | %s | %s |" % (",".join(e["properties"]), e["commit"], e.get("commit_subject", "")[5:].strip().replace("|", "/"),
                                        e["what"][:300].replace("|", "/").replace("\n", " ")))
out += ["", "## Recorded, not repaired (%d known findings)" % len(known), "",
        "Matched by a regular expression on the failure's bucket key (and optionally its detail text), as narrow as the root "
        "cause allows; the check prints `KNOWN-FINDING: property=<id> <what>` and exits 0; any other violation of the same "
        "property is still reported.  Reason for not repairing is given per entry (no small safe repair / would remove "
        "behaviour / repair too large to be safe here).", "",
        "| id | properties | bucket regex | what fails |", "|---|---|---|---|"]
for e in known:
    out.append("| %s | %s | `%s` | %s |" % (e["id"], ",".join(e["properties"]), e["bucket"][:120].replace("|", "\\|"),
                                          e["what"][:500].replace("|", "/").replace("\n", " ")))
open(os.path.join(HERE, "FINDINGS.md"), "w").write("\n".join(out) + "\n")
print("fixed %d known %d" % (len(fixed), len(known)))
