#!/venv/bin/python
"""Entry point:  run.py check <ID> [--tier quick|thorough] [--replay FILE]

Environment: VERIF_SEED (int, default 1), VERIF_TIER (quick|thorough), VERIF_REPO (default /repo),
VERIF_NPROC (default 16).  Re-executes itself under /venv/bin/python with PYTHONHASHSEED=0.
"""
import os
import sys

HERE = os.path.dirname(os.path.abspath(__file__))
PY = "/venv/bin/python"


def main():
    if not os.environ.get("_VERIF_REEXEC"):
        env = dict(os.environ)
        env["PYTHONHASHSEED"] = "0"
        env["PYTHONDONTWRITEBYTECODE"] = "1"
        env["_VERIF_REEXEC"] = "1"
        os.execve(PY, [PY, os.path.abspath(__file__)] + sys.argv[1:], env)
    os.chdir(HERE)
    sys.path.insert(0, HERE)
    from vlib import runner
    args = sys.argv[1:]
    if len(args) < 2 or args[0] != "check":
        sys.stderr.write(__doc__)
        return 2
    pid = args[1].upper()
    tier = os.environ.get("VERIF_TIER", "quick")
    replay = None
    i = 2
    while i < len(args):
        if args[i] == "--tier":
            tier = args[i + 1]
            i += 2
        elif args[i] == "--replay":
            replay = args[i + 1]
            i += 2
        else:
            sys.stderr.write("unknown argument %r\n" % args[i])
            return 2
    if tier not in ("quick", "thorough"):
        sys.stderr.write("bad tier\n")
        return 2
    try:
        seed = int(os.environ.get("VERIF_SEED", "1"))
    except ValueError:
        seed = 1
    modname = "checks.%s" % pid.lower()
    try:
        return runner.main_check(modname, pid, tier, seed, replay)
    except SystemExit:
        raise
    except BaseException:
        import traceback
        sys.stderr.write("HARNESS-ERROR %s\n" % traceback.format_exc())
        return 2


if __name__ == "__main__":
    sys.exit(main())
